//! Assertion families shared by the generated harnesses. Each macro runs the REAL parser built from the
//! catalogue shape and compares with the reference semantics / a second run of the real code.
//! Labels are `Cxx:<clause>`; the site is the harness name.

/// chumsky(g, x) == refsem(g, x): acceptance and output digest (which embeds every captured span).
/// `$perms`: the permissive-corner selectors under which refsem is evaluated; the real result must agree
/// with at least one of them (DESIGN 2.2).
#[macro_export]
macro_rules! fam_refsem {
    ($P:literal, $p:expr, $ast:expr, $x:expr, $t:expr, $perms:expr) => {
        $crate::fam_refsem!($P, $p, $ast, $x, $t, $perms, false)
    };
    ($P:literal, $p:expr, $ast:expr, $x:expr, $t:expr, $perms:expr, $always:expr) => {{
        let r = $p.parse($x);
        $crate::contract(&r);
        let out: Option<$crate::obs::Tr> = r.output().copied();
        let perms: &[u8] = &$perms;
        let mut ok_acc = false;
        let mut ok_out = false;
        let mut k = 0;
        while k < perms.len() {
            let mut env = $crate::refsem::Env::new($x, &$t);
            env.perm = perms[k];
            let e = $crate::refsem::parse(&$ast, &mut env);
            ok_acc |= e.is_some() == out.is_some();
            ok_out |= $crate::obs::same(&out, &e);
            k += 1;
        }
        $crate::check!(concat!($P, ":acceptance"), ok_acc);
        $crate::check!(concat!($P, ":output-and-extents"), ok_out);
        $crate::cover!("cover:accept", out.is_some());
        $crate::cover!("cover:reject", out.is_none() || $always);
    }};
}

/// C03-only variant: contract + acceptance tied to refsem on the whole input, no output comparison.
#[macro_export]
macro_rules! fam_contract {
    ($P:literal, $p:expr, $ast:expr, $x:expr, $t:expr, $perms:expr) => {
        $crate::fam_contract!($P, $p, $ast, $x, $t, $perms, false)
    };
    ($P:literal, $p:expr, $ast:expr, $x:expr, $t:expr, $perms:expr, $always:expr) => {{
        let r = $p.parse($x);
        $crate::contract(&r);
        let rc = $p.check($x);
        $crate::contract(&rc);
        let acc = r.has_output() && !r.has_errors();
        let perms: &[u8] = &$perms;
        let mut ok_acc = false;
        let mut k = 0;
        while k < perms.len() {
            let mut env = $crate::refsem::Env::new($x, &$t);
            env.perm = perms[k];
            let e = $crate::refsem::parse(&$ast, &mut env);
            // error-free acceptance <=> the grammar matches the whole input without any non-fatal error
            ok_acc |= ((e.is_some() && env.n_emis == 0) == acc) && (e.is_some() == r.has_output());
            k += 1;
        }
        $crate::check!(concat!($P, ":accepts-iff-whole-input-matches"), ok_acc);
        $crate::check!(concat!($P, ":check-agrees"), rc.has_output() == r.has_output());
        let ok = r.into_result().is_ok();
        $crate::check!(concat!($P, ":into_result-ok-iff-error-free"), ok == acc);
        $crate::cover!("cover:accept", rc.has_output());
        $crate::cover!("cover:reject", !acc || $always);
    }};
}

/// Emissions (C05) and recovery (C08) with `TagErr`: when there is an output, the reported errors are exactly
/// refsem's emission list (ids, order, spans); when there is none, the single final error sits at refsem's
/// furthest failure.
#[macro_export]
macro_rules! fam_emis {
    ($P:literal, $p:expr, $ast:expr, $x:expr, $t:expr) => {
        $crate::fam_emis!($P, $p, $ast, $x, $t, [0u8], false, false, false)
    };
    ($P:literal, $p:expr, $ast:expr, $x:expr, $t:expr, $perms:expr, $content:expr, $cfail:expr, $always:expr) => {{
        #[allow(unused_imports)]
        use $crate::errs::MkErr;
        let r = $p.parse($x);
        $crate::contract(&r);
        let (out, errs) = r.into_output_errors();
        // evaluate refsem under each permissive-corner selector; keep the first that reproduces the output
        // (the output embeds the consumed extents, so it determines which reading chumsky took)
        let perms: &[u8] = &$perms;
        let mut env = $crate::refsem::Env::new($x, &$t);
        env.perm = perms[0];
        let mut e = $crate::refsem::parse(&$ast, &mut env);
        let mut k = 1;
        while k < perms.len() {
            if !$crate::obs::same(&out, &e) {
                let mut env2 = $crate::refsem::Env::new($x, &$t);
                env2.perm = perms[k];
                let e2 = $crate::refsem::parse(&$ast, &mut env2);
                if $crate::obs::same(&out, &e2) {
                    env = env2;
                    e = e2;
                }
            }
            k += 1;
        }
        $crate::check!(concat!($P, ":acceptance"), e.is_some() == out.is_some());
        $crate::check!(concat!($P, ":output"), $crate::obs::same(&out, &e));
        if out.is_some() && e.is_some() {
            // every emitter k reports emit_weight(k) = 1, 2, 4, 8 copies: the LENGTH of the error list identifies
            // the surviving subset of emitters (reading the contents is only affordable with a single push site)
            $crate::check!(concat!($P, ":kept-emission-dropped"), errs.len() >= env.wsum);
            $crate::check!(concat!($P, ":abandoned-emission-leaks"), errs.len() <= env.wsum);
            if $content && !env.overflow {
                let mut i = 0;
                while i < errs.len() && i < env.n_emis && i < $crate::refsem::MAX_EMIS {
                    let (a, b) = (&errs[i], &env.emis[i]);
                    if b.id == 0xEE {
                        // recovered syntax error: the would-be primary error, at the furthest failure
                        $crate::check!(concat!($P, ":recovered-error-kind"), a.id() == 0xEE || a.id() == 0xDD);
                        $crate::check!(
                            concat!($P, ":recovered-error-position"),
                            a.id() == 0xDD || a.start() == b.start as usize
                        );
                    } else {
                        $crate::check!(concat!($P, ":emission-order"), a.id() == b.id);
                        $crate::check!(
                            concat!($P, ":emission-span"),
                            a.start() == b.start as usize && a.end() == b.end as usize
                        );
                    }
                    i += 1;
                }
            }
        }
        if out.is_none() && e.is_none() {
            $crate::check!(concat!($P, ":failure-has-error"), !errs.is_empty());
            if $cfail {
                if let Some(last) = errs.last() {
                    $crate::check!(
                        concat!($P, ":failure-error-at-furthest"),
                        env.far.custom || !env.far.set || last.start() == env.far.pos
                    );
                }
            }
        }
        $crate::cover!("cover:accept", out.is_some());
        $crate::cover!("cover:accept-with-errors", out.is_some() && !errs.is_empty());
        $crate::cover!("cover:reject", out.is_none() || $always);
    }};
}

/// C06 with `BitErr`: the last error of a rejected parse vs refsem's furthest failure.
/// `$perms`: permissive-corner selectors (DESIGN 2.2); the furthest failure is computed under each and the first
/// reading that agrees with the real error on (user-error flag, position, expected set) is the one judged — if
/// none agrees, the first selector is judged (and fails).
#[macro_export]
macro_rules! fam_far {
    ($P:literal, $p:expr, $ast:expr, $x:expr, $t:expr) => {
        $crate::fam_far!($P, $p, $ast, $x, $t, [0u8])
    };
    ($P:literal, $p:expr, $ast:expr, $x:expr, $t:expr, $perms:expr) => {{
        let r = $p.parse($x);
        $crate::contract(&r);
        let (out, errs) = r.into_output_errors();
        let perms: &[u8] = &$perms;
        let mut env = $crate::refsem::Env::new($x, &$t);
        env.perm = perms[0];
        let e = $crate::refsem::parse(&$ast, &mut env);
        $crate::check!(concat!($P, ":acceptance"), e.is_some() == out.is_some());
        if out.is_none() && e.is_none() {
            $crate::check!(concat!($P, ":exactly-one-error"), errs.len() == 1);
            if let Some(le) = errs.last() {
                use $crate::errs::MkErr;
                let mut far = env.far;
                let mut k = 1;
                while k < perms.len() {
                    let agrees = far.custom == le.custom() && (le.custom() || le.start() == far.pos) && le.exp() == far.exp;
                    if !agrees {
                        let mut env2 = $crate::refsem::Env::new($x, &$t);
                        env2.perm = perms[k];
                        let _ = $crate::refsem::parse(&$ast, &mut env2);
                        let f2 = env2.far;
                        if f2.custom == le.custom() && (le.custom() || le.start() == f2.pos) && le.exp() == f2.exp {
                            far = f2;
                        }
                    }
                    k += 1;
                }
                let le_start = le.start();
                $crate::check!(concat!($P, ":span-well-formed"), le.start() <= le.end() && le.end() <= $x.len());
                // a user-supplied error (try_map / custom) is preserved iff one was raised at the furthest position
                $crate::check!(concat!($P, ":custom-preserved"), !far.custom || le.custom());
                $crate::check!(concat!($P, ":custom-spurious"), far.custom || !le.custom());
                if !le.custom() {
                    // (the span of a user-supplied error is the user's; positions are judged on parser-made errors)
                    $crate::check!(concat!($P, ":not-earlier-than-furthest"), le_start >= far.pos);
                    $crate::check!(concat!($P, ":not-later-than-furthest"), le_start <= far.pos);
                    let want = if le_start < $x.len() { Some($x[le_start]) } else { None };
                    $crate::check!(concat!($P, ":found-is-token-at-start"), le.found() == want);
                }
                $crate::check!(concat!($P, ":expected-missing"), le.exp() & far.exp == far.exp);
                $crate::check!(concat!($P, ":expected-extra"), le.exp() & !far.exp == 0);
            }
        }
        $crate::cover!("cover:accept", out.is_some());
        $crate::cover!("cover:reject", out.is_none());
    }};
}

/// C06, reduced: only the error's own well-formedness (span inside the input, `found` = token at the start of
/// the span, None only at end of input). Used where the *position* of the failure is a permissive corner
/// (a rejecting `filter`).
#[macro_export]
macro_rules! fam_far_found {
    ($P:literal, $p:expr, $ast:expr, $x:expr, $t:expr) => {{
        let r = $p.parse($x);
        $crate::contract(&r);
        let (out, errs) = r.into_output_errors();
        let mut env = $crate::refsem::Env::new($x, &$t);
        let e = $crate::refsem::parse(&$ast, &mut env);
        $crate::check!(concat!($P, ":acceptance"), e.is_some() == out.is_some());
        if out.is_none() {
            $crate::check!(concat!($P, ":exactly-one-error"), errs.len() == 1);
            if let Some(le) = errs.last() {
                use $crate::errs::MkErr;
                let le_start = le.start();
                $crate::check!(concat!($P, ":span-well-formed"), le.start() <= le.end() && le.end() <= $x.len());
                let want = if le_start < $x.len() { Some($x[le_start]) } else { None };
                $crate::check!(concat!($P, ":found-is-token-at-start"), le.custom() || le.found() == want);
            }
        }
        $crate::cover!("cover:accept", out.is_some());
        $crate::cover!("cover:reject", out.is_none());
    }};
}

/// C04: `check` vs `parse` on the same (grammar, input): same acceptance, identical error list.
#[macro_export]
macro_rules! fam_check_mode {
    ($P:literal, $p:expr, $x:expr) => {{
        let r1 = $p.parse($x);
        let r2 = $p.check($x);
        $crate::contract(&r1);
        $crate::contract(&r2);
        $crate::check!(concat!($P, ":check-accepts-iff-parse-accepts"), r1.has_output() == r2.has_output());
        let (o1, e1) = r1.into_output_errors();
        let (_, e2) = r2.into_output_errors();
        $crate::check!(concat!($P, ":same-error-count"), e1.len() == e2.len());
        // (error CONTENTS are not compared here: reading them is not affordable for the solver when several
        // sites push errors; every emitter k reports emit_weight(k) copies, so the length identifies the set)
        $crate::cover!("cover:accept", o1.is_some());
        $crate::cover!("cover:reject", o1.is_none());
        $crate::cover!("cover:has-errors", !e1.is_empty());
    }};
}

/// Differential between two REAL parsers (paired formulations C04, decorated vs plain C11/C17, ...):
/// same acceptance, same output digest, same errors (id, span).
#[macro_export]
macro_rules! fam_pair {
    ($P:literal, $p:expr, $q:expr, $x:expr) => {
        $crate::fam_pair!($P, $p, $q, $x, false)
    };
    ($P:literal, $p:expr, $q:expr, $x:expr, $always:expr) => {{
        let r1 = $p.parse($x);
        let r2 = $q.parse($x);
        $crate::contract(&r1);
        $crate::contract(&r2);
        let (o1, e1) = r1.into_output_errors();
        let (o2, e2) = r2.into_output_errors();
        $crate::check!(concat!($P, ":same-acceptance"), o1.is_some() == o2.is_some());
        $crate::check!(concat!($P, ":same-output"), $crate::obs::same(&o1, &o2));
        $crate::check!(concat!($P, ":same-error-count"), e1.len() == e2.len());
        // (error CONTENTS are not compared here: reading them is not affordable for the solver when several
        // sites push errors; every emitter k reports emit_weight(k) copies, so the length identifies the set)
        $crate::cover!("cover:accept", o1.is_some());
        $crate::cover!("cover:reject", o1.is_none() || $always);
    }};
}
