//! Dual-use source of symbolic values and dual-use assertion primitives.
//!
//! Under `cfg(kani)` a value is `kani::any()` and an assertion is `kani::assert` (decided by the solver for
//! every value). Natively (`cvh-replay`) values are popped from a queue holding the solver's counterexample
//! and a failing assertion is recorded by label, so that a counterexample is only reported when the same
//! assertion fails against the natively compiled real code.

pub trait Src {
    fn u8(&mut self) -> u8;
    fn bool(&mut self) -> bool;
    /// A value in `0..=max` (the restriction is an assumption: listed in the evidence).
    fn upto(&mut self, max: u8) -> u8 {
        let v = self.u8();
        assume(v <= max);
        v
    }
}

#[cfg(kani)]
pub struct KaniSrc;

#[cfg(kani)]
impl Src for KaniSrc {
    #[inline(always)]
    fn u8(&mut self) -> u8 {
        kani::any()
    }
    #[inline(always)]
    fn bool(&mut self) -> bool {
        kani::any()
    }
}

/// Native source: values come from the counterexample (one byte vector per draw, as printed by
/// `--concrete-playback=print`). Running dry yields zeroes and sets `dry`.
pub struct QueueSrc {
    pub vals: Vec<Vec<u8>>,
    pub pos: usize,
    pub dry: bool,
}

impl QueueSrc {
    pub fn new(vals: Vec<Vec<u8>>) -> Self {
        QueueSrc { vals, pos: 0, dry: false }
    }
    fn pop(&mut self) -> u8 {
        let v = if self.pos < self.vals.len() {
            self.vals[self.pos].first().copied().unwrap_or(0)
        } else {
            self.dry = true;
            0
        };
        self.pos += 1;
        v
    }
}

impl Src for QueueSrc {
    fn u8(&mut self) -> u8 {
        self.pop()
    }
    fn bool(&mut self) -> bool {
        self.pop() & 1 == 1
    }
}

// ---------------------------------------------------------------------------------------------------------
// assertions / assumptions / cover witnesses

#[cfg(not(kani))]
pub mod native {
    use std::cell::RefCell;
    #[derive(Default, Debug, Clone)]
    pub struct Log {
        pub failed: Vec<&'static str>,
        pub passed: usize,
        pub assume_violated: Vec<&'static str>,
        pub covered: Vec<&'static str>,
    }
    thread_local! {
        pub static LOG: RefCell<Log> = RefCell::new(Log::default());
    }
    pub fn take() -> Log {
        LOG.with(|l| std::mem::take(&mut *l.borrow_mut()))
    }
}

/// Assert `cond`; `label` (a string literal, Kani needs one) has the form `Cxx:<site>:<clause>`.
#[macro_export]
macro_rules! check {
    ($label:expr, $cond:expr) => {{
        let __c: bool = $cond;
        #[cfg(kani)]
        kani::assert(__c, $label);
        #[cfg(not(kani))]
        $crate::sym::native_check($label, __c);
    }};
}

/// Vacuity witness: the run is inconclusive unless the solver finds a value reaching this with `cond`.
#[macro_export]
macro_rules! cover {
    ($label:expr, $cond:expr) => {{
        let __c: bool = $cond;
        #[cfg(kani)]
        kani::cover(__c, $label);
        #[cfg(not(kani))]
        $crate::sym::native_cover($label, __c);
    }};
}

#[cfg(not(kani))]
pub fn native_check(label: &'static str, cond: bool) {
    native::LOG.with(|l| {
        let mut l = l.borrow_mut();
        if cond {
            l.passed += 1
        } else {
            l.failed.push(label)
        }
    });
}

#[cfg(not(kani))]
pub fn native_cover(label: &'static str, cond: bool) {
    if cond {
        native::LOG.with(|l| l.borrow_mut().covered.push(label));
    }
}

#[inline(always)]
pub fn assume(cond: bool) {
    #[cfg(kani)]
    kani::assume(cond);
    #[cfg(not(kani))]
    if !cond {
        native::LOG.with(|l| l.borrow_mut().assume_violated.push("assume"));
    }
}

/// Symbolic input: up to `N` tokens with a symbolic length.
pub struct Inp<const N: usize> {
    pub buf: [u8; N],
    pub len: usize,
}

impl<const N: usize> Inp<N> {
    pub fn any<S: Src>(s: &mut S) -> Self {
        let mut buf = [0u8; N];
        let mut i = 0;
        while i < N {
            buf[i] = s.u8();
            i += 1;
        }
        let len = s.upto(N as u8) as usize;
        Inp { buf, len }
    }
    /// Tokens restricted to `0..=max` (small alphabet; an assumption).
    pub fn any_upto<S: Src>(s: &mut S, max: u8) -> Self {
        let mut buf = [0u8; N];
        let mut i = 0;
        while i < N {
            buf[i] = s.upto(max);
            i += 1;
        }
        let len = s.upto(N as u8) as usize;
        Inp { buf, len }
    }
    pub fn get(&self) -> &[u8] {
        &self.buf[..self.len]
    }
}
