//! Observation digest `Tr`: the output value of every harness grammar.
//!
//! A `Tr` is a byte string of length `n` packed into a `u128` (`h = (h << 8) | byte`), i.e. exact (injective)
//! for up to 16 bytes and lossy (oldest bytes fall off) beyond. Equal structures always give equal digests, so
//! the digest can never cause a false alarm; beyond 16 bytes a difference in the oldest bytes could be hidden.
//! No multiplication anywhere (bit-blasting friendly).

#[derive(Copy, Clone, PartialEq, Eq, Debug, Default)]
pub struct Tr {
    pub h: u128,
    pub n: u8,
}

impl Tr {
    #[inline(always)]
    pub const fn unit() -> Tr {
        Tr { h: 0, n: 0 }
    }
    #[inline(always)]
    pub fn tok(t: u8) -> Tr {
        Tr { h: t as u128, n: 1 }
    }
    #[inline(always)]
    pub fn push(self, b: u8) -> Tr {
        Tr { h: (self.h << 8) | b as u128, n: self.n.wrapping_add(1) }
    }
    /// Tag marker (which alternative / which constructor).
    #[inline(always)]
    pub fn tag(self, k: u8) -> Tr {
        self.push(0xA0 | (k & 0x0f))
    }
    /// Span marker: `start`/`end` are token (or byte) offsets `< 16`.
    #[inline(always)]
    pub fn span(self, start: usize, end: usize) -> Tr {
        self.push((((start & 0xf) as u8) << 4) | ((end & 0xf) as u8))
    }
    /// Concatenate (`self` first).
    #[inline(always)]
    pub fn cat(self, o: Tr) -> Tr {
        let sh = ((o.n & 0x1f) as u32) << 3;
        let h = if sh >= 128 { o.h } else { (self.h << sh) | o.h };
        Tr { h, n: self.n.wrapping_add(o.n) }
    }
    /// Last pushed byte (0 for the empty digest).
    #[inline(always)]
    pub fn low(self) -> u8 {
        self.h as u8
    }
    /// Digest of a list: count marker, then the items in order.
    pub fn list(items: &[Tr]) -> Tr {
        let mut t = Tr::unit().push(0xC0 | (items.len() as u8 & 0x0f));
        let mut i = 0;
        while i < items.len() {
            t = t.cat(items[i]);
            i += 1;
        }
        t
    }
}

/// Option<Tr> equality with a stable meaning under both cfgs.
#[inline(always)]
pub fn same(a: &Option<Tr>, b: &Option<Tr>) -> bool {
    match (a, b) {
        (None, None) => true,
        (Some(x), Some(y)) => x.h == y.h && x.n == y.n,
        _ => false,
    }
}
