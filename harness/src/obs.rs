//! Observation digest `Tr`: the output value of every harness grammar.
//!
//! A `Tr` is a byte string of length `n` packed into ONE `u128`: bits 120..128 hold `n`, bits 0..120 the last
//! (up to) 15 bytes (`h = (h << 8) | byte`), i.e. exact (injective) for up to 15 bytes and lossy (oldest bytes
//! fall off) beyond. Equal structures always give equal digests, so the digest can never cause a false alarm;
//! beyond 15 bytes a difference in the oldest bytes could be hidden. No multiplication anywhere (bit-blasting
//! friendly); a single scalar without padding (structs with padding bytes are copied byte-wise by CBMC when they
//! travel through `Vec`s, which is an order of magnitude slower — measured).

#[derive(Copy, Clone, PartialEq, Eq, Debug, Default)]
pub struct Tr(pub u128);

const NSH: u32 = 120;
const HMASK: u128 = (1u128 << NSH) - 1;

impl Tr {
    #[inline(always)]
    pub const fn unit() -> Tr {
        Tr(0)
    }
    #[inline(always)]
    pub fn n(self) -> u8 {
        (self.0 >> NSH) as u8
    }
    #[inline(always)]
    pub fn h(self) -> u128 {
        self.0 & HMASK
    }
    #[inline(always)]
    fn mk(h: u128, n: u8) -> Tr {
        Tr((h & HMASK) | ((n as u128) << NSH))
    }
    #[inline(always)]
    pub fn tok(t: u8) -> Tr {
        Tr::mk(t as u128, 1)
    }
    #[inline(always)]
    pub fn push(self, b: u8) -> Tr {
        Tr::mk((self.h() << 8) | b as u128, self.n().wrapping_add(1))
    }
    /// Tag marker (which alternative / which constructor).
    #[inline(always)]
    pub fn tag(self, k: u8) -> Tr {
        self.push(0xA0 | (k & 0x0f))
    }
    /// Span marker: `start`/`end` are token (or byte) offsets `< 16`.
    #[inline(always)]
    pub fn span(self, start: usize, end: usize) -> Tr {
        self.push((((start & 0xf) as u8) << 4) | ((end & 0xf) as u8))
    }
    /// Concatenate (`self` first).
    #[inline(always)]
    pub fn cat(self, o: Tr) -> Tr {
        let sh = ((o.n() & 0x1f) as u32) << 3;
        let h = if sh >= NSH { o.h() } else { (self.h() << sh) | o.h() };
        Tr::mk(h, self.n().wrapping_add(o.n()))
    }
    /// Last pushed byte (0 for the empty digest).
    #[inline(always)]
    pub fn low(self) -> u8 {
        self.0 as u8
    }
    /// Digest of a list: count marker, then the items in order.
    pub fn list(items: &[Tr]) -> Tr {
        let mut t = Tr::unit().push(0xC0 | (items.len() as u8 & 0x0f));
        let mut i = 0;
        while i < items.len() {
            t = t.cat(items[i]);
            i += 1;
        }
        t
    }
}

/// Option<Tr> equality with a stable meaning under both cfgs.
#[inline(always)]
pub fn same(a: &Option<Tr>, b: &Option<Tr>) -> bool {
    match (a, b) {
        (None, None) => true,
        (Some(x), Some(y)) => x.0 == y.0,
        _ => false,
    }
}
