//! Native replay of a solver counterexample against the natively compiled real code.
//! usage: cvh-replay <harness> <hex,hex,...>   (one byte per symbolic draw, in draw order)
//!        cvh-replay --list
#[cfg(kani)]
fn main() {}

#[cfg(not(kani))]
fn main() {
    use std::panic;
    let args: Vec<String> = std::env::args().collect();
    let reg = cvh::registry();
    if args.len() >= 2 && args[1] == "--list" {
        for (n, _) in &reg {
            println!("{n}");
        }
        return;
    }
    if args.len() < 3 {
        eprintln!("usage: cvh-replay <harness> <b0,b1,...>");
        std::process::exit(64);
    }
    let name = &args[1];
    let vals: Vec<Vec<u8>> = args[2]
        .split(',')
        .filter(|s| !s.is_empty())
        .map(|s| vec![u8::from_str_radix(s.trim(), 16).expect("hex byte")])
        .collect();
    let body = match reg.iter().find(|(n, _)| n == name) {
        Some((_, b)) => *b,
        None => {
            eprintln!("unknown harness {name}");
            std::process::exit(64);
        }
    };
    let res = panic::catch_unwind(move || {
        let mut src = cvh::sym::QueueSrc::new(vals);
        body(&mut src);
        src.dry
    });
    let log = cvh::sym::native::take();
    match res {
        Ok(dry) => {
            println!("REPLAY harness={name} dry={dry} passed={} assume_violated={}", log.passed, log.assume_violated.len());
            for f in &log.failed {
                println!("FAILED {f}");
            }
            for c in &log.covered {
                println!("COVERED {c}");
            }
            if !log.assume_violated.is_empty() {
                std::process::exit(3);
            }
            std::process::exit(if log.failed.is_empty() { 0 } else { 1 });
        }
        Err(e) => {
            let msg = e
                .downcast_ref::<String>()
                .cloned()
                .or_else(|| e.downcast_ref::<&str>().map(|s| s.to_string()))
                .unwrap_or_default();
            println!("PANIC {msg}");
            for f in &log.failed {
                println!("FAILED {f}");
            }
            std::process::exit(1);
        }
    }
}
