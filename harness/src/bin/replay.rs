//! Native replay of a solver counterexample against the natively compiled real code.
//! usage: cvh-replay <harness> <hex,hex,...>   (one byte per symbolic draw, in draw order)
//!        cvh-replay --list
#[cfg(kani)]
fn main() {}

#[cfg(not(kani))]
fn main() {
    use std::panic;
    let args: Vec<String> = std::env::args().collect();
    let reg = cvh::registry();
    if args.len() >= 2 && args[1] == "--list" {
        for (n, _) in &reg {
            println!("{n}");
        }
        return;
    }
    if args.len() >= 3 && args[1] == "--sweep" {
        // oracle self-test (sampling; decides nothing): run the native body on every draw vector over a
        // small alphabet and report any failing assertion
        let name = &args[2];
        let body = match reg.iter().find(|(n, _)| n == name) {
            Some((_, b)) => *b,
            None => {
                eprintln!("unknown harness {name}");
                std::process::exit(64);
            }
        };
        let budget: u64 = args.get(3).and_then(|s| s.parse().ok()).unwrap_or(300_000);
        // optional palette: draw values are taken from this list instead of 0..alphabet
        let palette: Option<Vec<u8>> = args.get(4).map(|s| s.split(',').filter_map(|v| v.trim().parse().ok()).collect());
        let mut probe = cvh::sym::QueueSrc::new(vec![]);
        let _ = panic::catch_unwind(panic::AssertUnwindSafe(|| body(&mut probe)));
        let _ = cvh::sym::native::take();
        let k = probe.pos;
        let mut a: u64 = 2;
        let amax = palette.as_ref().map(|p| p.len() as u64).unwrap_or(6);
        while (a + 1).pow(k as u32) <= budget && a < amax {
            a += 1;
        }
        let total = a.pow(k as u32);
        let (mut runs, mut skipped, mut bad) = (0u64, 0u64, 0u64);
        let mut v = vec![0u8; k];
        panic::set_hook(Box::new(|_| {}));
        let mut idx: u64 = 0;
        while idx < total && idx < budget * 4 {
            let mut r = idx;
            for slot in v.iter_mut() {
                *slot = match &palette {
                    Some(p) => p[(r % a) as usize],
                    None => (r % a) as u8,
                };
                r /= a;
            }
            let vals: Vec<Vec<u8>> = v.iter().map(|b| vec![*b]).collect();
            let res = panic::catch_unwind(move || {
                let mut src = cvh::sym::QueueSrc::new(vals);
                body(&mut src);
            });
            let log = cvh::sym::native::take();
            if !log.assume_violated.is_empty() {
                skipped += 1;
            } else {
                runs += 1;
                if res.is_err() || !log.failed.is_empty() {
                    bad += 1;
                    if bad <= 5 {
                        println!("SWEEP-FAIL harness={name} draws={:?} panic={} failed={:?}", v, res.is_err(), log.failed);
                    }
                }
            }
            idx += 1;
        }
        println!("SWEEP harness={name} draws={k} alphabet={a} runs={runs} skipped={skipped} failing={bad}");
        std::process::exit(if bad == 0 { 0 } else { 1 });
    }
    if args.len() < 3 {
        eprintln!("usage: cvh-replay <harness> <b0,b1,...>");
        std::process::exit(64);
    }
    let name = &args[1];
    let vals: Vec<Vec<u8>> = args[2]
        .split(',')
        .filter(|s| !s.is_empty())
        .map(|s| vec![u8::from_str_radix(s.trim(), 16).expect("hex byte")])
        .collect();
    let body = match reg.iter().find(|(n, _)| n == name) {
        Some((_, b)) => *b,
        None => {
            eprintln!("unknown harness {name}");
            std::process::exit(64);
        }
    };
    let res = panic::catch_unwind(move || {
        let mut src = cvh::sym::QueueSrc::new(vals);
        body(&mut src);
        src.dry
    });
    let log = cvh::sym::native::take();
    match res {
        Ok(dry) => {
            println!("REPLAY harness={name} dry={dry} passed={} assume_violated={}", log.passed, log.assume_violated.len());
            for f in &log.failed {
                println!("FAILED {f}");
            }
            for c in &log.covered {
                println!("COVERED {c}");
            }
            if !log.assume_violated.is_empty() {
                std::process::exit(3);
            }
            std::process::exit(if log.failed.is_empty() { 0 } else { 1 });
        }
        Err(e) => {
            let msg = e
                .downcast_ref::<String>()
                .cloned()
                .or_else(|| e.downcast_ref::<&str>().map(|s| s.to_string()))
                .unwrap_or_default();
            println!("PANIC {msg}");
            for f in &log.failed {
                println!("FAILED {f}");
            }
            std::process::exit(1);
        }
    }
}
