//! C09 — Pratt parsing: binding power, associativity, declaration order, unusable operators left unconsumed.
//! Two kinds of queries (DESIGN section 5, C09):
//!  * whole-parser: concrete operator tables, symbolic input, against the textbook binding-power algorithm;
//!  * one operator step with the recursion replaced by a recording stub: SYMBOLIC power / associativity / min_power.
use crate::obs::{same, Tr};
use crate::sym::{Inp, Src};
use crate::{check, contract, cover};
use chumsky::error::Cheap;
use chumsky::extra;
use chumsky::input::InputRef;
use chumsky::pratt::{infix, left, postfix, prefix, right, Associativity, Operator};
use chumsky::prelude::*;
use core::cell::Cell;

type I<'a> = &'a [u8];
type X<'a> = extra::Err<Cheap>;

// ---- the textbook algorithm ---------------------------------------------------------------------------------
#[derive(Copy, Clone)]
pub enum Kind {
    Pre,
    Post,
    InL,
    InR,
}
#[derive(Copy, Clone)]
pub struct Op {
    pub sym: u8,
    pub kind: Kind,
    pub p: u32,
}
fn is_atom(t: u8) -> bool {
    t >= 4
}
/// (left power, right power) in the usual doubled encoding
fn powers(o: &Op) -> (u32, u32) {
    match o.kind {
        Kind::InL => (2 * o.p, 2 * o.p + 1),
        Kind::InR => (2 * o.p + 1, 2 * o.p),
        Kind::Pre => (0, 2 * o.p),
        Kind::Post => (2 * o.p + 1, 0),
    }
}
/// parse an expression whose operators all bind at least as tightly as `min`; operators are tried in
/// declaration order; an operator whose operand is missing is left unconsumed
pub fn bp_expr(x: &[u8], pos: usize, min: u32, tbl: &[Op], fuel: usize) -> Option<(Tr, usize)> {
    if fuel == 0 {
        return None;
    }
    let mut lhs: Option<(Tr, usize)> = None;
    // prefix operators, in declaration order
    let mut k = 0;
    while k < tbl.len() && lhs.is_none() {
        if let Kind::Pre = tbl[k].kind {
            if pos < x.len() && x[pos] == tbl[k].sym {
                if let Some((r, p2)) = bp_expr(x, pos + 1, powers(&tbl[k]).1, tbl, fuel - 1) {
                    lhs = Some((Tr::tok(tbl[k].sym).cat(r).tag(2), p2));
                }
            }
        }
        k += 1;
    }
    let (mut l, mut p) = match lhs {
        Some(v) => v,
        None => {
            if pos < x.len() && is_atom(x[pos]) {
                (Tr::tok(x[pos]), pos + 1)
            } else {
                return None;
            }
        }
    };
    let mut steps = 0;
    loop {
        steps += 1;
        if steps > 6 {
            return None;
        }
        let mut applied = false;
        // postfix operators first, then infix, each in declaration order
        let mut k = 0;
        while k < tbl.len() && !applied {
            if let Kind::Post = tbl[k].kind {
                if powers(&tbl[k]).0 >= min && p < x.len() && x[p] == tbl[k].sym {
                    l = l.push(tbl[k].sym).tag(3);
                    p += 1;
                    applied = true;
                }
            }
            k += 1;
        }
        let mut k = 0;
        while k < tbl.len() && !applied {
            match tbl[k].kind {
                Kind::InL | Kind::InR => {
                    let (lp, rp) = powers(&tbl[k]);
                    if lp >= min && p < x.len() && x[p] == tbl[k].sym {
                        if let Some((r, p2)) = bp_expr(x, p + 1, rp, tbl, fuel - 1) {
                            l = l.push(tbl[k].sym).cat(r).tag(1);
                            p = p2;
                            applied = true;
                        }
                    }
                }
                _ => {}
            }
            k += 1;
        }
        if !applied {
            break;
        }
    }
    Some((l, p))
}

fn atom<'a>() -> impl Parser<'a, I<'a>, Tr, X<'a>> + Clone {
    chumsky::primitive::select::<_, I, Tr, X>(|t: u8, _| if is_atom(t) { Some(Tr::tok(t)) } else { None })
}
fn bin(l: Tr, op: u8, r: Tr) -> Tr {
    l.push(op).cat(r).tag(1)
}
fn pre(op: u8, r: Tr) -> Tr {
    Tr::tok(op).cat(r).tag(2)
}
fn post(l: Tr, op: u8) -> Tr {
    l.push(op).tag(3)
}

macro_rules! against {
    ($p:expr, $want:expr, $x:expr) => {{
        let r = $p.parse($x);
        contract(&r);
        let want: Option<Tr> = $want;
        let out = r.output().copied();
        check!("C09:accepts-exactly-the-textbook-expressions", out.is_some() == want.is_some());
        check!("C09:builds-the-textbook-tree", same(&out, &want));
        cover!("cover:accept-full-length", out.is_some());
        cover!("cover:reject", out.is_none());
        out
    }};
}

const PLUS: u8 = 0;
const STAR: u8 = 1;
const NEG: u8 = 2;
const BANG: u8 = 3;

// The recursive evaluator `bp_expr` above is the reference the NATIVE self-test (`cv.py sweep`) compares against;
// inside the solver a recursive oracle multiplies with the recursion of the parser itself (measured: timeout even
// at N = 3), so the harnesses use the textbook reading written out per input pattern for the stated bound. Each
// table below is also cross-checked natively: pattern oracle == bp_expr == chumsky on every input of the sweep.

/// table {prefix(2,'-'), infix(left(1),'+'), postfix(3,'!')}, inputs up to 3 tokens
fn want_mixed3(x: &[u8]) -> Option<Tr> {
    let a = |i: usize| is_atom(x[i]);
    match x.len() {
        1 if a(0) => Some(Tr::tok(x[0])),
        2 if x[0] == NEG && a(1) => Some(pre(NEG, Tr::tok(x[1]))),
        2 if a(0) && x[1] == BANG => Some(post(Tr::tok(x[0]), BANG)),
        3 if x[0] == NEG && x[1] == NEG && a(2) => Some(pre(NEG, pre(NEG, Tr::tok(x[2])))),
        // postfix(3) binds tighter than prefix(2): -(a!)
        3 if x[0] == NEG && a(1) && x[2] == BANG => Some(pre(NEG, post(Tr::tok(x[1]), BANG))),
        3 if a(0) && x[1] == BANG && x[2] == BANG => Some(post(post(Tr::tok(x[0]), BANG), BANG)),
        3 if a(0) && x[1] == PLUS && a(2) => Some(bin(Tr::tok(x[0]), PLUS, Tr::tok(x[2]))),
        _ => None,
    }
}

/// table {prefix(P,'-'), infix(left(1),'+')} with P = 2 (hi) or 0, inputs up to 4 tokens
fn want_prefix_power(x: &[u8], hi: bool) -> Option<Tr> {
    let a = |i: usize| is_atom(x[i]);
    let t = |i: usize| Tr::tok(x[i]);
    match x.len() {
        1 if a(0) => Some(t(0)),
        2 if x[0] == NEG && a(1) => Some(pre(NEG, t(1))),
        3 if x[0] == NEG && x[1] == NEG && a(2) => Some(pre(NEG, pre(NEG, t(2)))),
        3 if a(0) && x[1] == PLUS && a(2) => Some(bin(t(0), PLUS, t(2))),
        4 if x[0] == NEG && x[1] == NEG && x[2] == NEG && a(3) => Some(pre(NEG, pre(NEG, pre(NEG, t(3))))),
        // -a+b : the prefix captures `a+b` iff '+' (power 1) binds at least as tightly as the prefix
        4 if x[0] == NEG && a(1) && x[2] == PLUS && a(3) => {
            if hi {
                Some(bin(pre(NEG, t(1)), PLUS, t(3)))
            } else {
                Some(pre(NEG, bin(t(1), PLUS, t(3))))
            }
        }
        // a+-b : the right operand of '+' is requested with power 3; a prefix operator always starts an operand
        4 if a(0) && x[1] == PLUS && x[2] == NEG && a(3) => Some(bin(t(0), PLUS, pre(NEG, t(3)))),
        _ => None,
    }
}

/// table {infix(left(1),'+'), infix(A(2),'*')}, inputs up to 5 tokens
fn want_two_infix(x: &[u8], star_right: bool) -> Option<Tr> {
    let a = |i: usize| is_atom(x[i]);
    let t = |i: usize| Tr::tok(x[i]);
    let op = |i: usize| x[i] == PLUS || x[i] == STAR;
    match x.len() {
        1 if a(0) => Some(t(0)),
        3 if a(0) && op(1) && a(2) => Some(bin(t(0), x[1], t(2))),
        5 if a(0) && op(1) && a(2) && op(3) && a(4) => {
            let (o1, o2) = (x[1], x[3]);
            // group to the right iff the second operator binds tighter, or equally tight and right-associative
            let right = (o1 == PLUS && o2 == STAR) || (o1 == STAR && o2 == STAR && star_right);
            if right {
                Some(bin(t(0), o1, bin(t(2), o2, t(4))))
            } else {
                Some(bin(bin(t(0), o1, t(2)), o2, t(4)))
            }
        }
        _ => None,
    }
}

/// @harness props=C09:Q,C20:T n=3 err=Cheap timeout=900
/// @shape atom.pratt(( prefix(2,'-'), infix(left(1),'+') ))   vs the textbook reading of every input of length <= 3
/// @symbolic input: 3 arbitrary bytes (operator symbols are the bytes 0..=3, every other byte is an atom)
/// @aims the main loop with a two-operator tuple table: prefix operand, atom, infix while power >= min_power; a missing operand leaves the operator unconsumed (=> trailing input => rejected)
pub fn c09_pre_in_body<S: Src>(s: &mut S) {
    let inp = Inp::<3>::any(s);
    let x = inp.get();
    let p = atom().pratt((
        prefix(2, just::<u8, I, X>(NEG), |o, r, _| pre(o, r)),
        infix(left(1), just::<u8, I, X>(PLUS), |l, o, r, _| bin(l, o, r)),
    ));
    against!(p, want_prefix_power(x, true), x);
    #[cfg(not(kani))]
    {
        let tbl = [Op { sym: NEG, kind: Kind::Pre, p: 2 }, Op { sym: PLUS, kind: Kind::InL, p: 1 }];
        let rec = match bp_expr(x, 0, 0, &tbl, 6) {
            Some((t, p)) if p == x.len() => Some(t),
            _ => None,
        };
        check!("C09:pattern-oracle-equals-recursive-evaluator", same(&rec, &want_prefix_power(x, true)));
    }
}

/// @harness props=C09:Q,C20:T n=3 err=Cheap timeout=900
/// @shape atom.pratt(vec![ prefix(2,'-').boxed(), infix(left(1),'+').boxed() ])   [Vec table of boxed operators]   vs the textbook reading (= the tuple table of c09_pre_in)
/// @symbolic input: 3 arbitrary bytes
/// @aims tuple, Vec and boxed operator tables behave identically: the Vec impl tries the operators in declaration order through the dyn operator
pub fn c09_vec_boxed_body<S: Src>(s: &mut S) {
    let inp = Inp::<3>::any(s);
    let x = inp.get();
    let p = atom().pratt(vec![
        prefix(2, just::<u8, I, X>(NEG), |o, r, _| pre(o, r)).boxed(),
        infix(left(1), just::<u8, I, X>(PLUS), |l, o, r, _| bin(l, o, r)).boxed(),
    ]);
    against!(p, want_prefix_power(x, true), x);
}

/// @harness props=C09:Q,C20:T n=3 err=Cheap timeout=900
/// @shape atom.pratt(( infix(left(1),'+'), postfix(3,'!') ))   vs the textbook reading of every input of length <= 3
/// @symbolic input: 3 arbitrary bytes
/// @aims postfix operators in the main loop (applied iff their power >= min_power), mixed with an infix operator
pub fn c09_in_post_body<S: Src>(s: &mut S) {
    let inp = Inp::<3>::any(s);
    let x = inp.get();
    let p = atom().pratt((
        infix(left(1), just::<u8, I, X>(PLUS), |l, o, r, _| bin(l, o, r)),
        postfix(3, just::<u8, I, X>(BANG), |l, o, _| post(l, o)),
    ));
    // '-' (byte 2) is neither an operator of this table nor an atom
    let mut has_neg = false;
    let mut i = 0;
    while i < x.len() {
        has_neg |= x[i] == NEG;
        i += 1;
    }
    let want = if has_neg { None } else { want_mixed3(x) };
    against!(p, want, x);
    #[cfg(not(kani))]
    {
        let tbl = [Op { sym: PLUS, kind: Kind::InL, p: 1 }, Op { sym: BANG, kind: Kind::Post, p: 3 }];
        let rec = match bp_expr(x, 0, 0, &tbl, 6) {
            Some((t, p)) if p == x.len() => Some(t),
            _ => None,
        };
        check!("C09:pattern-oracle-equals-recursive-evaluator", same(&rec, &want));
    }
}

/// @harness props=C09:T,C20:T n=3 err=Cheap timeout=2400
/// @shape atom.pratt(( prefix(2,'-'), infix(left(1),'+'), postfix(3,'!') ))   vs the textbook reading of every input of length <= 3
/// @symbolic input: 3 arbitrary bytes (operator symbols are the bytes 0..=3, every other byte is an atom)
/// @aims the main loop (prefix, atom, then postfix/infix while power >= min_power), tuple tables, postfix vs prefix power
pub fn c09_mixed3_body<S: Src>(s: &mut S) {
    let inp = Inp::<3>::any(s);
    let x = inp.get();
    let p = atom().pratt((
        prefix(2, just::<u8, I, X>(NEG), |o, r, _| pre(o, r)),
        infix(left(1), just::<u8, I, X>(PLUS), |l, o, r, _| bin(l, o, r)),
        postfix(3, just::<u8, I, X>(BANG), |l, o, _| post(l, o)),
    ));
    let out = against!(p, want_mixed3(x), x);
    // native cross-check of the pattern oracle against the recursive textbook evaluator
    #[cfg(not(kani))]
    {
        let tbl = [
            Op { sym: NEG, kind: Kind::Pre, p: 2 },
            Op { sym: PLUS, kind: Kind::InL, p: 1 },
            Op { sym: BANG, kind: Kind::Post, p: 3 },
        ];
        let rec = match bp_expr(x, 0, 0, &tbl, 6) {
            Some((t, p)) if p == x.len() => Some(t),
            _ => None,
        };
        check!("C09:pattern-oracle-equals-recursive-evaluator", same(&rec, &want_mixed3(x)));
    }
    let _ = out;
}

/// (not registered in any tier: did not finish within 3000 s in the thorough validation run; kept for manual runs)
/// @harness props=X09:T n=4 err=Cheap timeout=3000
/// @shape atom.pratt(( prefix(P,'-'), infix(left(1),'+') )) with P in {0, 2} (two concrete tables, chosen symbolically)   vs textbook reading of every input of length <= 4
/// @symbolic input: 4 arbitrary bytes; which table
/// @aims a prefix operator captures `a+b` iff '+' binds at least as tightly as the prefix: -a+b = (-a)+b for P=2, -(a+b) for P=0
pub fn c09_prefix_power_body<S: Src>(s: &mut S) {
    let hi = s.bool();
    let inp = Inp::<4>::any(s);
    let x = inp.get();
    if hi {
        let p = atom().pratt((
            prefix(2, just::<u8, I, X>(NEG), |o, r, _| pre(o, r)),
            infix(left(1), just::<u8, I, X>(PLUS), |l, o, r, _| bin(l, o, r)),
        ));
        against!(p, want_prefix_power(x, true), x);
    } else {
        let p = atom().pratt((
            prefix(0, just::<u8, I, X>(NEG), |o, r, _| pre(o, r)),
            infix(left(1), just::<u8, I, X>(PLUS), |l, o, r, _| bin(l, o, r)),
        ));
        against!(p, want_prefix_power(x, false), x);
    }
    #[cfg(not(kani))]
    {
        let tbl = [Op { sym: NEG, kind: Kind::Pre, p: if hi { 2 } else { 0 } }, Op { sym: PLUS, kind: Kind::InL, p: 1 }];
        let rec = match bp_expr(x, 0, 0, &tbl, 6) {
            Some((t, p)) if p == x.len() => Some(t),
            _ => None,
        };
        check!("C09:pattern-oracle-equals-recursive-evaluator", same(&rec, &want_prefix_power(x, hi)));
    }
}

/// @harness props=C09:T,C20:T n=5 err=Cheap timeout=2400
/// @shape atom.pratt(( infix(left(1),'+'), infix(A(2),'*') )) A in {left, right}       vs textbook reading of every input of length <= 5
/// @symbolic input: 5 arbitrary bytes; associativity of '*'
/// @aims precedence (a+b*c vs a*b+c), equal powers group by associativity (a*b*c)
pub fn c09_two_infix_body<S: Src>(s: &mut S) {
    let ra = s.bool();
    let inp = Inp::<5>::any(s);
    let x = inp.get();
    let a2 = if ra { right(2) } else { left(2) };
    let p = atom().pratt((
        infix(left(1), just::<u8, I, X>(PLUS), |l, o, r, _| bin(l, o, r)),
        infix(a2, just::<u8, I, X>(STAR), |l, o, r, _| bin(l, o, r)),
    ));
    against!(p, want_two_infix(x, ra), x);
    #[cfg(not(kani))]
    {
        let tbl = [
            Op { sym: PLUS, kind: Kind::InL, p: 1 },
            Op { sym: STAR, kind: if ra { Kind::InR } else { Kind::InL }, p: 2 },
        ];
        let rec = match bp_expr(x, 0, 0, &tbl, 6) {
            Some((t, p)) if p == x.len() => Some(t),
            _ => None,
        };
        check!("C09:pattern-oracle-equals-recursive-evaluator", same(&rec, &want_two_infix(x, ra)));
    }
}

/// (not registered in any tier: did not finish within 3000 s in the thorough validation run; kept for manual runs)
/// @harness props=X09:T n=5 err=Cheap timeout=3000
/// @shape atom.pratt(( prefix(2,'!'), prefix(1,'-'), infix(left(1),'+') )) on inputs of the form  ! - a + b  (atoms symbolic)
/// @symbolic two atoms
/// @assume input == [BANG, NEG, a, PLUS, b]
/// @aims a low-power prefix operator inside a tighter context still captures operators that bind at least as tightly as itself: !-a+b = !(-(a+b))
pub fn c09_nested_prefix_body<S: Src>(s: &mut S) {
    let a0 = s.u8();
    let b0 = s.u8();
    crate::sym::assume(is_atom(a0) && is_atom(b0));
    let buf = [BANG, NEG, a0, PLUS, b0];
    let x: &[u8] = &buf;
    let p = atom().pratt((
        prefix(2, just::<u8, I, X>(BANG), |o, r, _| pre(o, r)),
        prefix(1, just::<u8, I, X>(NEG), |o, r, _| pre(o, r)),
        infix(left(1), just::<u8, I, X>(PLUS), |l, o, r, _| bin(l, o, r)),
    ));
    let r = p.parse(x);
    contract(&r);
    let want = Some(pre(BANG, pre(NEG, bin(Tr::tok(a0), PLUS, Tr::tok(b0)))));
    check!("C09:builds-the-textbook-tree", same(&r.output().copied(), &want));
    #[cfg(not(kani))]
    {
        let tbl = [
            Op { sym: BANG, kind: Kind::Pre, p: 2 },
            Op { sym: NEG, kind: Kind::Pre, p: 1 },
            Op { sym: PLUS, kind: Kind::InL, p: 1 },
        ];
        let rec = match bp_expr(x, 0, 0, &tbl, 6) {
            Some((t, p)) if p == x.len() => Some(t),
            _ => None,
        };
        check!("C09:pattern-oracle-equals-recursive-evaluator", same(&rec, &want));
    }
    cover!("cover:reached", r.has_output());
}

// ---- one operator step, recursion stubbed: symbolic powers ---------------------------------------------------

/// @harness props=C09:Q,C20:T n=3 err=Cheap timeout=900
/// @shape ONE call of Infix::do_parse_infix (the real code) from inside a custom parser; the recursive callback is a stub that records the min_power it is asked for, consumes k tokens and returns Ok / Err
/// @symbolic power p < 2^15, associativity, min_power < 2^17, operator symbol, stub: k in 0..=1 and Ok/Err; input 3 bytes
/// @aims attempted iff left_power >= min_power; right operand requested with right_power; left(p): lp < rp, right(p): lp > rp; missing operator or operand => cursor back at pre_op and lhs returned unchanged
pub fn c09_infix_step_body<S: Src>(s: &mut S) {
    let p16 = ((s.u8() as u16) << 8 | s.u8() as u16) & 0x7fff;
    let is_right = s.bool();
    let minp = ((s.u8() as u32) << 16 | (s.u8() as u32) << 8 | s.u8() as u32) & 0x1ffff;
    let sym = s.u8();
    let stub_ok = s.bool();
    let stub_k = s.upto(1) as usize;
    let inp = Inp::<3>::any(s);
    let x = inp.get();
    let assoc: Associativity = if is_right { right(p16) } else { left(p16) };
    let (lp, rp) = if is_right { (2 * p16 as u32 + 1, 2 * p16 as u32) } else { (2 * p16 as u32, 2 * p16 as u32 + 1) };
    let op = infix(assoc, just::<u8, I, X>(sym), |l: u8, _o: u8, r: u8, _| l.wrapping_add(r).wrapping_add(100));
    let asked: Cell<Option<u32>> = Cell::new(None);
    let asked_ref = &asked;
    let result: Cell<(bool, u8, usize)> = Cell::new((false, 0, 0));
    let result_ref = &result;
    fn run<'src, 'parse, Op: Operator<'src, I<'src>, u8, X<'src>>>(
        inp: &mut InputRef<'src, 'parse, I<'src>, X<'src>>,
        op: &Op,
        minp: u32,
        asked: &Cell<Option<u32>>,
        stub_k: usize,
        stub_ok: bool,
    ) -> (bool, u8, usize) {
        // the recursion callback, stubbed: records the min_power asked for, consumes stub_k tokens, returns Ok/Err
        let f = |inp: &mut InputRef<'src, 'parse, I<'src>, X<'src>>, mp: u32| -> Result<u8, ()> {
            asked.set(Some(mp));
            let mut i = 0;
            while i < stub_k {
                let _ = inp.next();
                i += 1;
            }
            if stub_ok {
                Ok(3u8)
            } else {
                Err(())
            }
        };
        let pre_expr = inp.cursor();
        let pre_op = inp.save();
        let r = op.do_parse_infix_emit(inp, &pre_expr, &pre_op, 7u8, minp, &f);
        let sp: SimpleSpan = inp.span_since(&pre_expr);
        match r {
            Ok(v) => (true, v, sp.end - sp.start),
            Err(v) => (false, v, sp.end - sp.start),
        }
    }
    let probe = custom::<_, I, (), X>(move |inp| {
        result_ref.set(run(inp, &op, minp, asked_ref, stub_k, stub_ok));
        // consume the rest so that the surrounding parse() succeeds
        while inp.next().is_some() {}
        Ok(())
    });
    let r = probe.parse(x);
    contract(&r);
    let (applied, val, consumed) = result.get();
    let op_here = !x.is_empty() && x[0] == sym;
    check!("C09:left-lt-right-for-left-assoc", is_right || lp < rp);
    check!("C09:left-gt-right-for-right-assoc", !is_right || lp > rp);
    if lp < minp {
        check!("C09:operator-not-attempted-below-min-power", !applied && asked.get().is_none() && consumed == 0 && val == 7);
    } else if !op_here {
        check!("C09:missing-operator-leaves-input-and-lhs", !applied && asked.get().is_none() && consumed == 0 && val == 7);
    } else {
        check!("C09:right-operand-requested-with-right-power", asked.get() == Some(rp));
        if stub_ok {
            check!("C09:operator-applied", applied && val == 7u8.wrapping_add(3).wrapping_add(100));
            check!("C09:consumed-operator-and-operand", consumed == 1 + if stub_k <= x.len() - 1 { stub_k } else { x.len() - 1 });
        } else {
            check!("C09:missing-right-operand-leaves-operator-unconsumed", !applied && consumed == 0 && val == 7);
        }
    }
    cover!("cover:applied", applied);
    cover!("cover:equal-power-boundary", lp == minp);
    cover!("cover:operand-missing", op_here && lp >= minp && !stub_ok);
}

/// @harness props=C09:Q,C20:T n=3 err=Cheap timeout=900
/// @shape ONE call of Prefix::do_parse_prefix and of Postfix::do_parse_postfix (real code), recursion stubbed
/// @symbolic power p < 2^15, min_power, symbol, stub result; input 3 bytes
/// @aims prefix: operand requested with 2p; failure rewinds to pre_expr. postfix: attempted iff 2p+1 >= min_power; failure rewinds
pub fn c09_unary_step_body<S: Src>(s: &mut S) {
    let p16 = ((s.u8() as u16) << 8 | s.u8() as u16) & 0x7fff;
    let minp = ((s.u8() as u32) << 16 | (s.u8() as u32) << 8 | s.u8() as u32) & 0x1ffff;
    let sym = s.u8();
    let stub_ok = s.bool();
    let inp = Inp::<3>::any(s);
    let x = inp.get();
    let pre_op = prefix(p16, just::<u8, I, X>(sym), |_o: u8, r: u8, _| r.wrapping_add(50));
    let post_op = postfix(p16, just::<u8, I, X>(sym), |l: u8, _o: u8, _| l.wrapping_add(60));
    let asked: Cell<Option<u32>> = Cell::new(None);
    let asked_ref = &asked;
    let res: Cell<(bool, u8, usize, bool, u8, usize)> = Cell::new((false, 0, 0, false, 0, 0));
    let res_ref = &res;
    fn run_pre<'src, 'parse, Op: Operator<'src, I<'src>, u8, X<'src>>>(
        inp: &mut InputRef<'src, 'parse, I<'src>, X<'src>>,
        op: &Op,
        asked: &Cell<Option<u32>>,
        stub_ok: bool,
    ) -> (bool, u8, usize) {
        let f = |inp: &mut InputRef<'src, 'parse, I<'src>, X<'src>>, mp: u32| -> Result<u8, ()> {
            asked.set(Some(mp));
            let _ = inp.next();
            if stub_ok {
                Ok(3u8)
            } else {
                Err(())
            }
        };
        let start = inp.cursor();
        let pre_expr = inp.save();
        let r = op.do_parse_prefix_emit(inp, &pre_expr, &f);
        let sp: SimpleSpan = inp.span_since(&start);
        let out = match r {
            Ok(v) => (true, v, sp.end - sp.start),
            Err(()) => (false, 0, sp.end - sp.start),
        };
        inp.rewind(pre_expr);
        out
    }
    fn run_post<'src, 'parse, Op: Operator<'src, I<'src>, u8, X<'src>>>(
        inp: &mut InputRef<'src, 'parse, I<'src>, X<'src>>,
        op: &Op,
        minp: u32,
    ) -> (bool, u8, usize) {
        let pre_expr = inp.cursor();
        let pre_op = inp.save();
        let r = op.do_parse_postfix_emit(inp, &pre_expr, &pre_op, 7u8, minp);
        let sp: SimpleSpan = inp.span_since(&pre_expr);
        match r {
            Ok(v) => (true, v, sp.end - sp.start),
            Err(v) => (false, v, sp.end - sp.start),
        }
    }
    let probe = custom::<_, I, (), X>(move |inp| {
        let a = run_pre(inp, &pre_op, asked_ref, stub_ok);
        let b = run_post(inp, &post_op, minp);
        res_ref.set((a.0, a.1, a.2, b.0, b.1, b.2));
        while inp.next().is_some() {}
        Ok(())
    });
    let r = probe.parse(x);
    contract(&r);
    let (pa, pv, pc, qa, qv, qc) = res.get();
    let op_here = !x.is_empty() && x[0] == sym;
    if op_here {
        check!("C09:prefix-operand-requested-with-its-power", asked.get() == Some(2 * p16 as u32));
        if stub_ok {
            check!("C09:prefix-applied", pa && pv == 3u8.wrapping_add(50) && pc >= 1);
        } else {
            check!("C09:prefix-missing-operand-leaves-operator-unconsumed", !pa && pc == 0);
        }
    } else {
        check!("C09:prefix-not-applied-without-operator", !pa && pc == 0 && asked.get().is_none());
    }
    if 2 * p16 as u32 + 1 >= minp && op_here {
        check!("C09:postfix-applied", qa && qv == 7u8.wrapping_add(60) && qc == 1);
    } else {
        check!("C09:postfix-not-applied", !qa && qv == 7 && qc == 0);
    }
    cover!("cover:prefix-applied", pa);
    cover!("cover:postfix-boundary", 2 * p16 as u32 + 1 == minp && op_here);
}

crate::harnesses! {
    c09_pre_in [5] = c09_pre_in_body;
    c09_in_post [5] = c09_in_post_body;
    c09_vec_boxed [5] = c09_vec_boxed_body;
    c09_mixed3 [5] = c09_mixed3_body;
    c09_prefix_power [6] = c09_prefix_power_body;
    c09_two_infix [7] = c09_two_infix_body;
    c09_nested_prefix [7] = c09_nested_prefix_body;
    c09_infix_step [6] = c09_infix_step_body;
    c09_unary_step [6] = c09_unary_step_body;
}
