//! C04 — hand-written additions to the generated C04 families: parsers with a SEPARATE check path written by the
//! user (a `custom` parser that runs a sub-parser through `InputRef::check` vs through `InputRef::parse`).
use crate::errs::MkErr;
use crate::obs::Tr;
use crate::prims::pb::*;
use crate::sym::{Inp, Src};
use crate::{check, contract, cover};

/// @harness props=C04:Q,C20:T n=3 err=BitErr
/// @shape custom(|inp| inp.check(t0?)) then t1 then t2?      vs      custom(|inp| inp.parse(t0?)) then t1 then t2?     (and parse() vs check() of each)
/// @symbolic t0..t2: u8
/// @aims a sub-parser run through InputRef::check leaves exactly what InputRef::parse leaves: position AND the pending error of a succeeding sub-parser (merged into a later failure at the same position)
pub fn c04_custom_check_body<S: Src>(s: &mut S) {
    let t = [s.u8(), s.u8(), s.u8()];
    let inp = Inp::<3>::any(s);
    let x = inp.get();
    let (t0, t1, t2) = (t[0], t[1], t[2]);
    let via_check = custom::<_, I, (), X>(move |inp| inp.check(ornot(j(t0))));
    let via_parse = custom::<_, I, (), X>(move |inp| inp.parse(ornot(j(t0))).map(|_| ()));
    let p = via_check.then(j(t1)).then(ornot(j(t2))).map(|_| Tr::unit());
    let q = via_parse.then(j(t1)).then(ornot(j(t2))).map(|_| Tr::unit());
    let rp = p.parse(x);
    let rq = q.parse(x);
    let rpc = p.check(x);
    contract(&rp);
    contract(&rq);
    contract(&rpc);
    check!("C04:custom-check-path-changes-acceptance", rp.has_output() == rq.has_output() && rpc.has_output() == rq.has_output());
    let (_, ep) = rp.into_output_errors();
    let (_, eq) = rq.into_output_errors();
    let (_, epc) = rpc.into_output_errors();
    check!("C04:custom-check-path-changes-error-count", ep.len() == eq.len() && epc.len() == eq.len());
    if let (Some(a), Some(b), Some(c)) = (ep.last().copied(), eq.last().copied(), epc.last().copied()) {
        check!("C04:custom-check-path-changes-error-span", a.start() == b.start() && a.end() == b.end() && c.start() == b.start() && c.end() == b.end());
        check!("C04:custom-check-path-changes-expectations", a.exp() == b.exp() && c.exp() == b.exp());
        check!("C04:custom-check-path-changes-found", a.found() == b.found() && c.found() == b.found());
    }
    cover!("cover:accept", eq.is_empty());
    cover!("cover:optional-absent-then-failure-at-same-position", !eq.is_empty() && !x.is_empty() && x[0] != t0 && x[0] != t1);
}

crate::harnesses! {
    c04_custom_check [6] = c04_custom_check_body;
}
