//! Hand-written harnesses (shapes the catalogue generator does not express). Every `*_body` function carries
//! its registry metadata in `/// @harness`, `/// @shape`, `/// @aims` doc lines, which tools/hand_registry.py
//! reads; the unwind bound is the one given in the module's `harnesses!` list.
pub mod base;
pub mod c18;

pub fn extend(v: &mut Vec<(&'static str, crate::Body)>) {
    v.extend_from_slice(base::REG);
    v.extend_from_slice(c18::REG);
}
