//! Hand-written harnesses (shapes the catalogue generator does not express). Every `*_body` function carries
//! its registry metadata in `/// @harness`, `/// @shape`, `/// @aims` doc lines, which tools/hand_registry.py
//! reads; the unwind bound is the one given in the module's `harnesses!` list.
pub mod base;
pub mod c04;
pub mod c07;
pub mod c09;
pub mod c10;
pub mod c11;
pub mod c12;
pub mod c13;
pub mod c14;
pub mod c15;
pub mod c16;
pub mod c17;
pub mod c18;
pub mod c19;
pub mod c20;

pub fn extend(v: &mut Vec<(&'static str, crate::Body)>) {
    v.extend_from_slice(base::REG);
    v.extend_from_slice(c04::REG);
    v.extend_from_slice(c07::REG);
    v.extend_from_slice(c09::REG);
    v.extend_from_slice(c10::REG);
    v.extend_from_slice(c11::REG);
    v.extend_from_slice(c11::REG2);
    v.extend_from_slice(c12::REG);
    v.extend_from_slice(c12::REG2);
    v.extend_from_slice(c13::REG);
    v.extend_from_slice(c14::REG);
    v.extend_from_slice(c15::REG);
    v.extend_from_slice(c16::REG);
    v.extend_from_slice(c17::REG);
    v.extend_from_slice(c18::REG);
    v.extend_from_slice(c19::REG);
    v.extend_from_slice(c20::REG);
}
