//! C12 — recursive parsers equal their unrolling; clone / box / drop freely once defined.
use crate::obs::{same, Tr};
use crate::prims::pc::*;
use crate::sym::{Inp, Src};
use crate::{check, contract, cover};
use chumsky::recursive::Recursive;

/// oracle for  E = t0 E t1 | t2 : returns Some(depth) iff x = t0^d t2 t1^d (first alternative tried first)
fn nest_oracle(x: &[u8], t: [u8; 3], pos: usize, fuel: usize) -> Option<(u8, usize)> {
    if fuel == 0 {
        return None;
    }
    // alternative 1: t0 E t1
    if pos < x.len() && x[pos] == t[0] {
        if let Some((d, p)) = nest_oracle(x, t, pos + 1, fuel - 1) {
            if p < x.len() && x[p] == t[1] {
                return Some((d + 1, p + 1));
            }
        }
    }
    // alternative 2: t2
    if pos < x.len() && x[pos] == t[2] {
        return Some((0, pos + 1));
    }
    None
}

/// E = t0 E t1 | t2 built with `recursive()` (the handle is an `Rc<dyn Parser>`)
fn nest<'a>(t: [u8; 3]) -> impl Parser<'a, I<'a>, Tr, X<'a>> + Clone {
    recursive::<_, _, X, _, _>(move |e| {
        e.delimited_by(just::<u8, I, X>(t[0]), just::<u8, I, X>(t[1]))
            .map(|d: Tr| Tr::tok(d.low().wrapping_add(1)))
            .or(just::<u8, I, X>(t[2]).to(Tr::tok(0)))
    })
}

/// The same grammar built with `Recursive::declare` / `define` (the handle is a sized `Rc<Indirect>`). Measured: the
/// `Rc<dyn Parser>` of `recursive()` costs CBMC an order of magnitude more per recursion level (field offsets inside
/// a dyn-sized RcInner depend on the vtable's alignment, which defeats constant propagation of the reference
/// counts), so the deeper bounds use this form and `recursive()` itself is decided at the smallest bound.
fn nest_dd<'a>(t: [u8; 3]) -> Recursive<chumsky::recursive::Indirect<'a, 'a, I<'a>, Tr, X<'a>>> {
    let mut e = Recursive::declare();
    e.define(
        e.clone()
            .delimited_by(just::<u8, I, X>(t[0]), just::<u8, I, X>(t[1]))
            .map(|d: Tr| Tr::tok(d.low().wrapping_add(1)))
            .or(just::<u8, I, X>(t[2]).to(Tr::tok(0))),
    );
    e
}

/// @harness props=C12:Q,C20:T n=3 err=Cheap timeout=900
/// @shape E = declare(); E.define(E.delimited_by(t0, t1).map(depth+1) | t2.to(0))     vs the unrolled grammar (direct recursive oracle)
/// @symbolic t0..t2: u8 (the solver also explores t0 == t2 etc.)
/// @aims the self-reference behaves like the grammar expanded as deeply as the input requires
pub fn c12_nesting_body<S: Src>(s: &mut S) {
    let t = [s.u8(), s.u8(), s.u8()];
    let inp = Inp::<3>::any(s);
    let x = inp.get();
    let p = nest_dd(t);
    let r = p.parse(x);
    contract(&r);
    let want = match nest_oracle(x, t, 0, 4) {
        Some((d, p)) if p == x.len() => Some(Tr::tok(d)),
        _ => None,
    };
    let out = r.output().copied();
    check!("C12:recursive-equals-unrolling-acceptance", out.is_some() == want.is_some());
    check!("C12:recursive-equals-unrolling-output", same(&out, &want));
    cover!("cover:depth-1", out == Some(Tr::tok(1)));
    cover!("cover:reject", out.is_none());
    // the drop of a recursive parser is the subject of c12_clone_drop; here it is skipped: CBMC cannot see that the
    // inner handle is the weak one and unrolls the Rc drop glue through the whole grammar type to the recursion bound
    // (measured: 20 M variables / 92 M clauses with the drop, see DESIGN)
    drop(r);
    core::mem::forget(p);
}

/// @harness props=C12:T n=2 err=Cheap timeout=2400
/// @shape E = recursive(|e| (t0 then e).map(depth+1) | t1.to(0))     [right recursion through recursive()]  vs  t0^d t1
/// @symbolic t0, t1: u8; input 2 bytes
/// @aims recursive() itself (Rc::new_cyclic, weak self-handle upgraded on every call) at the smallest bound that nests once
pub fn c12_recursive_fn_body<S: Src>(s: &mut S) {
    let t = [s.u8(), s.u8()];
    let inp = Inp::<2>::any(s);
    let x = inp.get();
    let p = recursive::<_, _, X, _, _>(move |e| {
        just::<u8, I, X>(t[0])
            .ignore_then(e)
            .map(|d: Tr| Tr::tok(d.low().wrapping_add(1)))
            .or(just::<u8, I, X>(t[1]).to(Tr::tok(0)))
    });
    let r = p.parse(x);
    contract(&r);
    // t0^d t1 (first alternative tried first: with t0 == t1 a lone t0 still matches through the second alternative)
    let want = match x.len() {
        1 if x[0] == t[1] => Some(Tr::tok(0)),
        2 if x[0] == t[0] && x[1] == t[1] => Some(Tr::tok(1)),
        _ => None,
    };
    let out = r.output().copied();
    check!("C12:recursive-equals-unrolling-acceptance", out.is_some() == want.is_some());
    check!("C12:recursive-equals-unrolling-output", same(&out, &want));
    cover!("cover:depth-1", out == Some(Tr::tok(1)));
    cover!("cover:reject", out.is_none());
    drop(r);
    core::mem::forget(p);
}

/// @harness props=C12:Q,C13:Q,C20:T n=3 err=Cheap timeout=900
/// @shape build E (declare/define) ; q = E.clone(); b = q.clone().boxed(); drop(E); parse with q, drop(q), then parse with b, drop(b)      vs oracle
/// @symbolic t0..t2: u8
/// @aims a defined recursive parser may be cloned, boxed and the original dropped: the survivors keep working (no weak handle left dangling); every handle is dropped in the harness (Kani's pointer / free checks)
pub fn c12_clone_drop_body<S: Src>(s: &mut S) {
    let t = [s.u8(), s.u8(), s.u8()];
    let inp = Inp::<3>::any(s);
    let x = inp.get();
    let p = nest_dd(t);
    let q = p.clone();
    let b = q.clone().boxed();
    drop(p);
    let want = match nest_oracle(x, t, 0, 4) {
        Some((d, p)) if p == x.len() => Some(Tr::tok(d)),
        _ => None,
    };
    let r1 = q.parse(x);
    contract(&r1);
    check!("C12:clone-survives-drop-of-original", same(&r1.output().copied(), &want));
    drop(q);
    let r2 = b.parse(x);
    contract(&r2);
    check!("C12:boxed-clone-survives-drop-of-original", same(&r2.output().copied(), &want));
    cover!("cover:depth-1", want == Some(Tr::tok(1)));
}

/// @harness props=C12:Q,C13:Q,C20:T n=1 err=Cheap timeout=900
/// @shape build E (declare/define) ; q = E.clone(); drop(E); parse with q        (input of at most ONE token: the smallest query in which a clone outlives the original)
/// @symbolic t0..t2: u8
/// @aims a clone of a recursive parser owns the definition: it keeps working after the original handle is gone
pub fn c12_clone_small_body<S: Src>(s: &mut S) {
    let t = [s.u8(), s.u8(), s.u8()];
    let inp = Inp::<1>::any(s);
    let x = inp.get();
    let p = nest_dd(t);
    let q = p.clone();
    drop(p);
    let r = q.parse(x);
    contract(&r);
    let want = if x.len() == 1 && x[0] == t[2] { Some(Tr::tok(0)) } else { None };
    check!("C12:clone-survives-drop-of-original", same(&r.output().copied(), &want));
    cover!("cover:accept", want.is_some());
    cover!("cover:reject", want.is_none());
    drop(r);
    core::mem::forget(q);
}

/// @harness props=C12:Q,C20:T n=3 err=Cheap timeout=900
/// @shape declare/define pair:  a = t0 | t1 b t2 ;  b = a t3?      (mutually recursive; only `a` is kept, `b` goes out of scope)
/// @symbolic t0..t3: u8
/// @aims Recursive::declare / define: mutual recursion equals the unrolling; the pair stays usable when only one handle is kept
pub fn c12_mutual_body<S: Src>(s: &mut S) {
    let t = [s.u8(), s.u8(), s.u8(), s.u8()];
    let inp = Inp::<3>::any(s);
    let x = inp.get();
    let a = {
        let mut a = Recursive::declare();
        let mut b = Recursive::declare();
        a.define(
            just::<u8, I, X>(t[0])
                .to(Tr::tok(1))
                .or(b.clone().delimited_by(just::<u8, I, X>(t[1]), just::<u8, I, X>(t[2])).map(|v: Tr| v.tag(2))),
        );
        b.define(a.clone().then(just::<u8, I, X>(t[3]).or_not()).map(|(v, o): (Tr, Option<u8>)| if o.is_some() { v.tag(3) } else { v }));
        a
    };
    let r = a.parse(x);
    contract(&r);
    // unrolled by hand for |x| <= 3:  a = t0 | t1 (a t3?) t2
    let n = x.len();
    let leaf = |i: usize| i < n && x[i] == t[0];
    let want = if n >= 1 && x[0] == t[0] {
        // ordered choice: the first alternative of `a` matches one token and is committed to
        if n == 1 {
            Some(Tr::tok(1))
        } else {
            None
        }
    } else if n == 3 && x[0] == t[1] && leaf(1) {
        // t1 (a t3?) t2 with a = t0: the optional t3 greedily takes x[2] if it can, and then t2 is missing
        if x[2] == t[3] {
            None
        } else if x[2] == t[2] {
            Some(Tr::tok(1).tag(2))
        } else {
            None
        }
    } else {
        None
    };
    let out = r.output().copied();
    check!("C12:mutual-recursion-equals-unrolling", same(&out, &want));
    cover!("cover:accept-nested", out.is_some() && n == 3);
    cover!("cover:reject", out.is_none());
    drop(r);
    core::mem::forget(a);
}

crate::harnesses! {
    c12_recursive_fn [4] = c12_recursive_fn_body;
}
crate::harnesses_stub_caller! {
    c12_nesting [5] = c12_nesting_body;
    c12_clone_drop [5] = c12_clone_drop_body;
    c12_clone_small [4] = c12_clone_small_body;
    c12_mutual [9] = c12_mutual_body;
}
