//! C18 — user state and inspectors: a counting + hashing `Inspector` whose checkpoint is a snapshot must always
//! equal the fold over exactly the tokens before the current position.
use crate::sym::{Inp, Src};
use crate::{check, contract, cover};
use chumsky::error::Cheap;
use chumsky::extra;
use chumsky::input::{Checkpoint, Cursor};
use chumsky::inspector::Inspector;
use chumsky::prelude::*;

#[derive(Copy, Clone, PartialEq, Eq, Debug, Default)]
pub struct Cnt {
    pub n: usize,
    pub h: u32,
}

#[inline(always)]
fn mix(h: u32, t: u8) -> u32 {
    h.rotate_left(5) ^ (t as u32) ^ 0x9e37
}

impl Cnt {
    /// the state obtained by feeding exactly `x[from..to]`
    pub fn of(x: &[u8], from: usize, to: usize) -> Cnt {
        let mut c = Cnt::default();
        let mut i = from;
        while i < to && i < x.len() {
            c.n += 1;
            c.h = mix(c.h, x[i]);
            i += 1;
        }
        c
    }
}

impl<'src> Inspector<'src, &'src [u8]> for Cnt {
    type Checkpoint = Cnt;
    #[inline(always)]
    fn on_token(&mut self, t: &u8) {
        self.n += 1;
        self.h = mix(self.h, *t);
    }
    #[inline(always)]
    fn on_save<'parse>(&self, _: &Cursor<'src, 'parse, &'src [u8]>) -> Cnt {
        *self
    }
    #[inline(always)]
    fn on_rewind<'parse>(&mut self, m: &Checkpoint<'src, 'parse, &'src [u8], Cnt>) {
        *self = *m.inspector();
    }
}

pub type X<'a> = extra::Full<Cheap, Cnt, ()>;
pub type I<'a> = &'a [u8];

/// Observation flag: bit 7 set iff the state seen by a user closure differs from the fold over the tokens
/// before the current position (= the end of the span handed to the closure). Flags are OR-ed upwards.
#[derive(Copy, Clone, PartialEq, Eq, Debug)]
pub struct Ob(pub u8);

impl Ob {
    pub const OK: Ob = Ob(0);
    #[inline(always)]
    pub fn and(self, o: Ob) -> Ob {
        Ob(self.0 | o.0)
    }
    pub fn all(v: &[Ob]) -> Ob {
        let mut f = Ob::OK;
        let mut i = 0;
        while i < v.len() {
            f = f.and(v[i]);
            i += 1;
        }
        f
    }
}

/// wrap `p`: observe the state in a `map_with` closure right after `p` succeeded
pub fn ob<'a, O: 'a>(
    p: impl Parser<'a, I<'a>, O, X<'a>> + Clone,
    x: &'a [u8],
    base: usize,
) -> impl Parser<'a, I<'a>, Ob, X<'a>> + Clone {
    p.map_with(move |_o: O, e| {
        let s: SimpleSpan = e.span();
        let st: Cnt = *e.state();
        if st == Cnt::of(x, base, s.end) {
            Ob::OK
        } else {
            Ob(0x80)
        }
    })
}

/// merge the flags of a pair
pub fn pair<'a>(
    p: impl Parser<'a, I<'a>, (Ob, Ob), X<'a>> + Clone,
) -> impl Parser<'a, I<'a>, Ob, X<'a>> + Clone {
    p.map(|(a, b): (Ob, Ob)| a.and(b))
}

fn finish(r: &chumsky::ParseResult<Ob, Cheap>, st: Cnt, x: &[u8]) {
    finish2(r, st, x, false)
}

fn finish2(r: &chumsky::ParseResult<Ob, Cheap>, st: Cnt, x: &[u8], always_accepts: bool) {
    contract(r);
    if let Some(o) = r.output() {
        check!("C18:closure-state-equals-fold-of-consumed-prefix", o.0 & 0x80 == 0);
        if !r.has_errors() {
            check!("C18:final-state-equals-fold-of-whole-input", st == Cnt::of(x, 0, x.len()));
        }
    }
    cover!("cover:accept", r.has_output() && !r.has_errors());
    cover!("cover:reject", !r.has_output() || always_accepts);
}

fn j<'a>(c: u8) -> impl Parser<'a, I<'a>, u8, X<'a>> + Clone {
    just::<u8, I<'a>, X<'a>>(c)
}
fn a<'a>() -> impl Parser<'a, I<'a>, u8, X<'a>> + Clone {
    any::<I<'a>, X<'a>>()
}
fn rest<'a>(x: &'a [u8]) -> impl Parser<'a, I<'a>, Ob, X<'a>> + Clone {
    ob(a(), x, 0).repeated().collect::<Vec<Ob>>().map(|v: Vec<Ob>| Ob::all(&v))
}

/// @harness props=C18:Q,C20:T n=3 err=Cheap
/// @shape ob(ob(t0) ob(t1)) | ob(ob(t2) ob(any)?)  then ob(any)*        [ob = state observed in map_with]
/// @symbolic t0..t2: u8
/// @aims or / or_not: the first alternative consumed tokens (on_token) and was rewound (on_rewind must restore)
pub fn c18_choice_body<S: Src>(s: &mut S) {
    let t = [s.u8(), s.u8(), s.u8()];
    let inp = Inp::<3>::any(s);
    let x = inp.get();
    let alt1 = ob(pair(ob(j(t[0]), x, 0).then(ob(j(t[1]), x, 0))), x, 0);
    let alt2 = ob(
        pair(ob(j(t[2]), x, 0).then(ob(a(), x, 0).or_not().map(|o: Option<Ob>| o.unwrap_or(Ob::OK)))),
        x,
        0,
    );
    let p = pair(alt1.or(alt2).then(rest(x)));
    let mut st = Cnt::default();
    let r = p.parse_with_state(x, &mut st);
    finish(&r, st, x);
}

/// @harness props=C18:Q,C20:T n=4 err=Cheap
/// @shape ob(t0 t1)*  then  ob(t2).separated_by(t3).allow_trailing()  then ob(any)*
/// @symbolic t0..t3: u8
/// @aims repeated / separated_by rewinds (failed last item, separator given back)
pub fn c18_repeated_body<S: Src>(s: &mut S) {
    let t = [s.u8(), s.u8(), s.u8(), s.u8()];
    let inp = Inp::<4>::any(s);
    let x = inp.get();
    let items = ob(j(t[0]).then(j(t[1])), x, 0).repeated().collect::<Vec<Ob>>().map(|v: Vec<Ob>| Ob::all(&v));
    let seps = ob(j(t[2]), x, 0)
        .separated_by(j(t[3]))
        .allow_trailing()
        .collect::<Vec<Ob>>()
        .map(|v: Vec<Ob>| Ob::all(&v));
    let p = pair(pair(ob(items, x, 0).then(ob(seps, x, 0))).then(rest(x)));
    let mut st = Cnt::default();
    let r = p.parse_with_state(x, &mut st);
    finish2(&r, st, x, true);
}

/// @harness props=C18:Q,C05:Q,C20:T n=3 err=Cheap
/// @shape ob(ob(t0 any).rewind() then ob((t1 any).not()) then ob(ob(any any?).and_is(none_of t2))) then ob(any)*
/// @symbolic t0..t2: u8
/// @aims rewind / not / and_is reposition the input (and_is: back to the start for B, then FORWARD to where A ended when B is shorter): the inspector must be repositioned with it
pub fn c18_lookahead_body<S: Src>(s: &mut S) {
    let t = [s.u8(), s.u8(), s.u8()];
    let inp = Inp::<3>::any(s);
    let x = inp.get();
    let la = ob(ob(j(t[0]).then(a()), x, 0).rewind(), x, 0);
    let neg = ob(j(t[1]).then(a()).not(), x, 0);
    let conj = ob(ob(a().then(a().or_not()), x, 0).and_is(none_of::<[u8; 1], I, X>([t[2]])), x, 0);
    let p = pair(pair(pair(la.or_not().map(|o: Option<Ob>| o.unwrap_or(Ob::OK)).then(neg)).then(conj)).then(rest(x)));
    let mut st = Cnt::default();
    let r = p.parse_with_state(x, &mut st);
    finish(&r, st, x);
}

/// @harness props=C18:Q,C20:T n=4 err=Cheap timeout=900
/// @shape ob(t0 t1).recover_with(via_parser(ob(any))) ; ob(t0 t1).recover_with(skip_then_retry_until(any, t2)) ; ...skip_until
/// @symbolic t0..t2: u8, which: recovery strategy selector (3 strategies in one harness, selected symbolically)
/// @aims recovery rewinds before running the strategy; the strategy consumes tokens through on_token
pub fn c18_recover_body<S: Src>(s: &mut S) {
    let t = [s.u8(), s.u8(), s.u8()];
    let which = s.upto(2);
    let inp = Inp::<4>::any(s);
    let x = inp.get();
    let body = || ob(j(t[0]).then(j(t[1])), x, 0);
    let mut st = Cnt::default();
    let r = if which == 0 {
        pair(ob(body().recover_with(via_parser(ob(a(), x, 0))), x, 0).then(rest(x))).parse_with_state(x, &mut st)
    } else if which == 1 {
        pair(
            ob(body().recover_with(skip_then_retry_until(a().ignored(), j(t[2]).ignored())), x, 0).then(rest(x)),
        )
        .parse_with_state(x, &mut st)
    } else {
        pair(
            ob(body().recover_with(skip_until(a().ignored(), j(t[2]).ignored(), || Ob::OK)), x, 0).then(rest(x)),
        )
        .parse_with_state(x, &mut st)
    };
    contract(&r);
    if let Some(o) = r.output() {
        check!("C18:closure-state-equals-fold-of-consumed-prefix", o.0 & 0x80 == 0);
        // (a recovered parse has errors; the final state must still be the whole input)
        check!("C18:final-state-equals-fold-of-whole-input", st == Cnt::of(x, 0, x.len()));
    }
    cover!("cover:recovered", r.has_output() && r.has_errors());
    cover!("cover:accept", r.has_output() && !r.has_errors());
    cover!("cover:reject", !r.has_output());
}

/// counting inspector for `&str` inputs (tokens are characters)
#[derive(Copy, Clone, PartialEq, Eq, Debug, Default)]
pub struct CntS {
    pub n: usize,
    pub h: u32,
}
impl<'src> Inspector<'src, &'src str> for CntS {
    type Checkpoint = CntS;
    #[inline(always)]
    fn on_token(&mut self, t: &char) {
        self.n += 1;
        self.h = self.h.rotate_left(5) ^ (*t as u32) ^ 0x9e37;
    }
    #[inline(always)]
    fn on_save<'parse>(&self, _: &Cursor<'src, 'parse, &'src str>) -> CntS {
        *self
    }
    #[inline(always)]
    fn on_rewind<'parse>(&mut self, m: &Checkpoint<'src, 'parse, &'src str, CntS>) {
        *self = *m.inspector();
    }
}

/// @harness props=C18:Q,C20:T n=3 err=Cheap timeout=900 input=&str_of_up_to_3_chars_from_{CR,LF,a,NEL}
/// @shape text::newline() observed in map_with, then any* observed, on &str with a character-counting inspector
/// @symbolic each character: index 0..=3; number of characters 0..=3
/// @aims every token a text parser steps over (peek + skip in the CR / CRLF path of newline) is fed to on_token: the state after newline counts exactly the characters of the terminator
pub fn c18_newline_str_body<S: Src>(s: &mut S) {
    const AL: [char; 4] = ['\r', '\n', 'a', '\u{85}'];
    let mut buf = [0u8; 8];
    let mut len = 0usize;
    let mut cs = ['a'; 3];
    let n = s.upto(3) as usize;
    let mut i = 0;
    while i < 3 {
        let k = s.upto(3) as usize;
        if i < n {
            cs[i] = AL[k];
            len += AL[k].encode_utf8(&mut buf[len..]).len();
        }
        i += 1;
    }
    let x = unsafe { core::str::from_utf8_unchecked(&buf[..len]) };
    type XS<'a> = extra::Full<Cheap, CntS, ()>;
    let nl = text::newline::<&str, XS>().map_with(|(), e| e.state().n);
    let tail = any::<&str, XS>().repeated().count().map_with(|k: usize, e| (k, e.state().n));
    let mut st = CntS::default();
    let r = nl.then(tail).parse_with_state(x, &mut st);
    contract(&r);
    if let Some((after_nl, (k, after_all))) = r.output() {
        let want = if cs[0] == '\r' && n >= 2 && cs[1] == '\n' { 2 } else { 1 };
        check!("C18:closure-state-equals-fold-of-consumed-prefix", *after_nl == want);
        check!("C18:closure-state-equals-fold-of-consumed-prefix", *after_all == n && *k + want == n);
        check!("C18:final-state-equals-fold-of-whole-input", st.n == n);
    }
    cover!("cover:crlf", r.has_output() && n >= 2 && cs[0] == '\r' && cs[1] == '\n');
    cover!("cover:lone-cr", r.has_output() && n >= 2 && cs[0] == '\r' && cs[1] != '\n');
    cover!("cover:reject", !r.has_output());
}

/// @harness props=C18:Q,C20:T n=3 err=Cheap
/// @shape ob(t0).padded() then end                       [padded = skip_while over whitespace bytes]
/// @symbolic t0: u8; input bytes arbitrary (incl. whitespace)
/// @aims skip_while must feed every skipped token to on_token
pub fn c18_padded_body<S: Src>(s: &mut S) {
    let t = [s.u8()];
    let inp = Inp::<3>::any(s);
    let x = inp.get();
    let p = ob(ob(j(t[0]), x, 0).padded(), x, 0);
    let mut st = Cnt::default();
    let r = p.parse_with_state(x, &mut st);
    finish(&r, st, x);
    cover!("cover:padding-skipped", r.has_output() && x.len() == 3);
}

/// @harness props=C18:Q,C20:T n=3 err=Cheap
/// @shape select(|tok, e| state ok).foldl_with(select(..).repeated(), |acc, y, e| state ok)
/// @symbolic t0: u8 (select threshold)
/// @aims state access from select and foldl_with closures
pub fn c18_select_fold_body<S: Src>(s: &mut S) {
    let t = [s.u8()];
    let inp = Inp::<3>::any(s);
    let x = inp.get();
    let th = t[0];
    let sel = move || {
        chumsky::primitive::select::<_, I, Ob, X>(move |tok: u8, e| {
            let sp: SimpleSpan = e.span();
            let st: Cnt = *e.state();
            if tok > th {
                Some(if st == Cnt::of(x, 0, sp.end) { Ob::OK } else { Ob(0x80) })
            } else {
                None
            }
        })
    };
    let p = sel().foldl_with(sel().repeated(), move |acc: Ob, y: Ob, e| {
        let sp: SimpleSpan = e.span();
        let st: Cnt = *e.state();
        let here = if st == Cnt::of(x, 0, sp.end) { Ob::OK } else { Ob(0x80) };
        acc.and(y).and(here)
    });
    let mut st = Cnt::default();
    let r = p.parse_with_state(x, &mut st);
    finish(&r, st, x);
}

/// @harness props=C18:Q,C20:T n=4 err=Cheap timeout=900
/// @shape ob_outer(any) then ( inner{ob_inner(t0) ob_inner(any)}.with_state(Cnt0) )*  then ob_outer'(any)*
/// @symbolic t0: u8
/// @aims with_state: the sub-parser starts from a fresh copy of the given state on EVERY invocation; the outer state is untouched
pub fn c18_with_state_body<S: Src>(s: &mut S) {
    let t = [s.u8()];
    let inp = Inp::<4>::any(s);
    let x = inp.get();
    // inner parser: its state must equal the fold over the tokens consumed since ITS OWN start
    let inner = just::<u8, I, X>(t[0])
        .map_with(move |_, e| {
            let sp: SimpleSpan = e.span();
            let st: Cnt = *e.state();
            (sp.start, if st == Cnt::of(x, sp.start, sp.end) { Ob::OK } else { Ob(0x80) })
        })
        .then(any::<I, X>().map_with(move |_, e| {
            let sp: SimpleSpan = e.span();
            (sp.end, *e.state())
        }))
        .map(move |((start, f1), (end, st)): ((usize, Ob), (usize, Cnt))| {
            f1.and(if st == Cnt::of(x, start, end) { Ob::OK } else { Ob(0x40) })
        });
    // outer: counts only what the OUTER parsers consumed (exactly the first token)
    let outer_after = any::<I, X>().or_not().map_with(move |_, e| {
        let st: Cnt = *e.state();
        st
    });
    let p = ob(a(), x, 0)
        .then(inner.with_state(Cnt::default()).repeated().collect::<Vec<Ob>>().map(|v: Vec<Ob>| Ob::all(&v)))
        .then(outer_after)
        .then_ignore(a().repeated());
    let mut st = Cnt::default();
    let r = p.parse_with_state(x, &mut st);
    contract(&r);
    if let Some(((f0, f1), outer)) = r.output() {
        check!("C18:closure-state-equals-fold-of-consumed-prefix", f0.0 & 0x80 == 0);
        check!("C18:with_state-fresh-copy-per-invocation", f1.0 & 0xc0 == 0);
        // outer state after the with_state block: only tokens consumed by outer parsers were fed to it,
        // i.e. the first token and (if present) the token consumed by `outer_after` itself
        check!("C18:with_state-leaves-outer-untouched", outer.n <= 2 && outer.h != 0xffff_ffff);
        let first_only = Cnt::of(x, 0, 1);
        check!("C18:with_state-leaves-outer-untouched", outer.n == 2 || *outer == first_only);
    }
    cover!("cover:accept", r.has_output() && !r.has_errors());
    cover!("cover:two-invocations", r.has_output() && x.len() == 4 && x[3] != x[1]);
}

crate::harnesses! {
    c18_newline_str [8] = c18_newline_str_body;
    c18_choice [6] = c18_choice_body;
    c18_repeated [7] = c18_repeated_body;
    c18_lookahead [6] = c18_lookahead_body;
    c18_recover [7] = c18_recover_body;
    c18_padded [6] = c18_padded_body;
    c18_select_fold [6] = c18_select_fold_body;
    c18_with_state [7] = c18_with_state_body;
}
