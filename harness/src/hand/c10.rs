//! C10 — the result does not depend on how the input is represented.
//! One generic grammar function instantiated at several input kinds; differential against the `&[u8]` run.
use crate::obs::{same, Tr};
use crate::sym::{Inp, Src};
use crate::{check, contract, cover};
use chumsky::error::Cheap;
use chumsky::extra;
use chumsky::input::{Input, IterInput, Stream};
use chumsky::prelude::*;
use core::cell::Cell;

type X<'a> = extra::Err<Cheap>;

/// (t0 t1 end)<span> | (t0 t2 t1? t2{0,1})<span>: a grammar that backtracks over consumed tokens and captures spans.
/// Only `just`/`end` primitives, so that it instantiates for every `Input` (IterInput is not a `ValueInput`).
fn g<'a, In>(t: [u8; 3]) -> impl Parser<'a, In, Tr, X<'a>> + Clone
where
    In: Input<'a, Token = u8, Span = SimpleSpan>,
{
    let j = |c: u8| just::<u8, In, X>(c).map(Tr::tok);
    let sp = |x: Tr, s: SimpleSpan| x.span(s.start, s.end);
    let alt1 = j(t[0]).then(j(t[1])).map(|(a, b)| a.cat(b)).map_with(move |x, e| sp(x, e.span()).tag(1));
    let alt2 = j(t[0])
        .then(j(t[2]))
        .then(j(t[1]).or_not())
        .map(|((a, b), c)| match c {
            Some(c) => a.cat(b).cat(c),
            None => a.cat(b),
        })
        .map_with(move |x, e| sp(x, e.span()).tag(2));
    let tail = just::<u8, In, X>(t[2]).repeated().at_most(1).count().map_with(move |n, e| sp(Tr::tok(n as u8), e.span()));
    alt1.then_ignore(end()).or(alt2.then(tail).map(|(a, b)| a.cat(b)))
}

/// The iterator under a `Stream`: hands out `x` in order, one item per `next`, and counts the calls that returned an
/// item. A plain `Iterator` (no size hint, not `TrustedLen`): `Stream` grows its cache item by item, with concrete
/// capacities — with `x.iter().copied()` the cache is reserved in one go with a SYMBOLIC size, which CBMC pays for with
/// tens of GB (measured: out of memory at 30 GB). What is under test is `Stream`, not the iterator.
pub struct Pull<'a> {
    x: &'a [u8],
    i: usize,
    pulls: &'a Cell<usize>,
}
impl<'a> Iterator for Pull<'a> {
    type Item = u8;
    fn next(&mut self) -> Option<u8> {
        if self.i < self.x.len() {
            let v = self.x[self.i];
            self.i += 1;
            self.pulls.set(self.pulls.get() + 1);
            Some(v)
        } else {
            None
        }
    }
}

macro_rules! same_as_slice {
    ($t:expr, $x:expr, $other:expr) => {{
        let r0 = g::<&[u8]>($t).parse($x);
        let r1 = $other;
        contract(&r0);
        contract(&r1);
        check!("C10:same-acceptance", r0.has_output() == r1.has_output());
        check!("C10:same-output-and-spans", same(&r0.output().copied(), &r1.output().copied()));
        let (_, e0) = r0.into_output_errors();
        let (o1, e1) = r1.into_output_errors();
        check!("C10:same-error-count", e0.len() == e1.len());
        if let (Some(a), Some(b)) = (e0.last(), e1.last()) {
            check!("C10:same-error-position", a.span().start == b.span().start && a.span().end == b.span().end);
        }
        cover!("cover:accept-second-alternative", o1.map(|o| o.0 != 0).unwrap_or(false) && $x.len() == 3);
        cover!("cover:reject", o1.is_none());
    }};
}

/// @harness props=C10:Q,C20:T n=3 err=Cheap timeout=900
/// @shape (t0 t1) | (t0 any) | any any any   on a Stream over a pull-counting iterator
/// @symbolic t0, t1: u8; input 3 bytes
/// @aims a Stream pulls every item from its iterator at most once and in order, however much the parser backtracks; acceptance as on &[u8]. (Outputs, spans and error positions of a Stream are compared in c10_array_boxed; a Stream-vs-slice differential with symbolic LENGTH does not fit in memory: measured out of memory at 30 GB)
pub fn c10_stream_pulls_body<S: Src>(s: &mut S) {
    let t = [s.u8(), s.u8()];
    let inp = Inp::<3>::any(s);
    let x = inp.get();
    let pulls = Cell::new(0usize);
    let stream = Stream::from_iter(Pull { x, i: 0, pulls: &pulls });
    let j = |c: u8| just::<u8, Stream<_>, X>(c);
    let p = j(t[0]).then(j(t[1])).ignored().or(j(t[0]).then(any()).ignored()).or(any().then(any()).then(any()).ignored());
    let r = p.parse(stream);
    contract(&r);
    check!("C10:stream-pulls-each-item-at-most-once", pulls.get() <= x.len());
    // what the same grammar accepts on &[u8] (ordered choice commits to the first alternative that matches, then the
    // whole input must have been consumed): t0 followed by exactly one more token, or three tokens not starting with
    // t0 — the tokens re-read from the cache after backtracking must be the ones that were pulled
    let want = (x.len() == 2 && x[0] == t[0]) || (x.len() == 3 && x[0] != t[0]);
    check!("C10:same-acceptance", r.has_output() == want);
    cover!("cover:accept", r.has_output());
    cover!("cover:backtracked", r.has_output() && x.len() == 3);
}

/// @harness props=C10:Q,C20:T n=3 err=Cheap timeout=900
/// @shape &[u8]  vs  IterInput (rewinds by cloning the iterator; tokens carry index spans i..i+1; eoi n..n)
/// @symbolic t0..t2: u8; input 3 bytes
/// @aims IterInput cursor / span bookkeeping across rewinds
pub fn c10_iter_input_body<S: Src>(s: &mut S) {
    let t = [s.u8(), s.u8(), s.u8()];
    let inp = Inp::<3>::any(s);
    let x = inp.get();
    let n = x.len();
    let it = x.iter().copied().enumerate().map(|(i, b)| (b, SimpleSpan::from(i..i + 1)));
    let input = IterInput::new(it, SimpleSpan::from(n..n));
    same_as_slice!(t, x, g::<IterInput<_, SimpleSpan>>(t).parse(input));
}

/// @harness props=C10:Q,C20:T n=3 err=Cheap timeout=900
/// @shape &[u8]  vs  Input::map over &[(u8, SimpleSpan)] with index spans   and   &[u8].map_span(identity)  (symbolic choice)
/// @symbolic t0..t2: u8; input 3 bytes; which
/// @aims mapped (token, span) inputs and map_span re-base spans only as documented
pub fn c10_mapped_body<S: Src>(s: &mut S) {
    let t = [s.u8(), s.u8(), s.u8()];
    let which = s.bool();
    let inp = Inp::<3>::any(s);
    let x = inp.get();
    let n = x.len();
    if which {
        let mut buf = [(0u8, SimpleSpan::from(0..0)); 3];
        let mut i = 0;
        while i < n {
            buf[i] = (x[i], SimpleSpan::from(i..i + 1));
            i += 1;
        }
        let toks = &buf[..n];
        let input = toks.map(SimpleSpan::from(n..n), |(t, s): &(u8, SimpleSpan)| (t, s));
        fn run<'a, In: Input<'a, Token = u8, Span = SimpleSpan>>(t: [u8; 3], i: In) -> chumsky::ParseResult<Tr, Cheap> {
            g::<In>(t).parse(i)
        }
        same_as_slice!(t, x, run(t, input));
    } else {
        let input = x.map_span(|s: SimpleSpan| s);
        fn run<'a, In: Input<'a, Token = u8, Span = SimpleSpan>>(t: [u8; 3], i: In) -> chumsky::ParseResult<Tr, Cheap> {
            g::<In>(t).parse(i)
        }
        same_as_slice!(t, x, run(t, input));
    }
}

/// @harness props=C10:Q,C20:T n=3 err=Cheap timeout=900
/// @shape &[u8]  vs  &[u8; 3] (array reference)  and  Stream.boxed()        (input of exactly 3 tokens)
/// @symbolic t0..t2: u8; 3 bytes; which
/// @aims array and boxed-stream inputs
pub fn c10_array_boxed_body<S: Src>(s: &mut S) {
    let t = [s.u8(), s.u8(), s.u8()];
    let which = s.bool();
    let arr = [s.u8(), s.u8(), s.u8()];
    let x: &[u8] = &arr;
    if which {
        same_as_slice!(t, x, g::<&[u8; 3]>(t).parse(&arr));
    } else {
        let stream = Stream::from_iter(arr.iter().copied()).boxed();
        same_as_slice!(t, x, g::<chumsky::input::BoxedStream<'_, u8>>(t).parse(stream));
    }
}

/// @harness props=C10:Q,C20:T n=3 err=Cheap timeout=900 input=ASCII_bytes_<_128
/// @shape the same grammar shape written over char on &str vs over u8 on &[u8], input restricted to ASCII
/// @symbolic t0..t2: u8 < 128; 3 bytes < 128
/// @aims &str (byte offsets) and &[u8] (indices) coincide on ASCII text: acceptance, consumed extents, error position
pub fn c10_str_vs_bytes_body<S: Src>(s: &mut S) {
    let t = [s.upto(127), s.upto(127), s.upto(127)];
    let inp = Inp::<3>::any_upto(s, 127);
    let x = inp.get();
    let st = match core::str::from_utf8(x) {
        Ok(st) => st,
        Err(_) => return,
    };
    let tc = [t[0] as char, t[1] as char, t[2] as char];
    // &str version of g (Token = char)
    let j = |c: char| just::<char, &str, X>(c).map(|c: char| Tr::tok(c as u8));
    let sp = |x: Tr, s: SimpleSpan| x.span(s.start, s.end);
    let alt1 = j(tc[0]).then(j(tc[1])).map(|(a, b)| a.cat(b)).map_with(move |x, e| sp(x, e.span()).tag(1));
    let alt2 = j(tc[0])
        .then(j(tc[2]))
        .then(j(tc[1]).or_not())
        .map(|((a, b), c)| match c {
            Some(c) => a.cat(b).cat(c),
            None => a.cat(b),
        })
        .map_with(move |x, e| sp(x, e.span()).tag(2));
    let tail = just::<char, &str, X>(tc[2]).repeated().at_most(1).count().map_with(move |n, e| sp(Tr::tok(n as u8), e.span()));
    let p = alt1.then_ignore(end()).or(alt2.then(tail).map(|(a, b)| a.cat(b)));
    same_as_slice!(t, x, p.parse(st));
}

// (IoInput: tried once more in the build phase with a hand-written `Read + Seek` over a slice, four CONCRETE lengths
// 0..=3 and the grammar `(any any).and_is(any) then any?` — out of memory at 14 GB after 508 s (BufReader's 8 KiB
// buffer initialisation and io::Error plumbing); IoInput stays not applicable, see DESIGN 10.2.)

// (Graphemes: tried once more in the build phase, ASCII only — up to 2 characters from {a, CR, LF}, `any*.count()` against
// "CR LF is one cluster": timeout at 900 s (unicode-segmentation's cursor state machine); Graphemes stays not applicable.)

crate::harnesses! {
    c10_stream_pulls [6] = c10_stream_pulls_body;
    c10_iter_input [6] = c10_iter_input_body;
    c10_mapped [6] = c10_mapped_body;
    c10_array_boxed [6] = c10_array_boxed_body;
    c10_str_vs_bytes [6] = c10_str_vs_bytes_body;
}
