//! C07 — spans and slices are exact, well-formed and zero-copy.
//! (Exactness w.r.t. what was consumed is also part of every C01/C02 digest; here: well-formedness, nesting,
//! character boundaries, pointer identity of slices, token-carried spans.)
use crate::sym::{Inp, Src};
use crate::{check, contract, cover};
use chumsky::error::Cheap;
use chumsky::extra;
use chumsky::input::Input;
use chumsky::prelude::*;

type X<'a> = extra::Err<Cheap>;

/// A `&str` of up to N characters from the alphabet {a (1 byte), é (2), € (3), 😀 (4)}, chosen symbolically.
pub struct StrInp<const N: usize> {
    buf: [u8; 16],
    len: usize,
    pub chars: usize,
}
const ALPHA: [char; 4] = ['a', 'é', '€', '😀'];
impl<const N: usize> StrInp<N> {
    pub fn any<S: Src>(s: &mut S) -> Self {
        let mut buf = [0u8; 16];
        let mut len = 0usize;
        let n = s.upto(N as u8) as usize;
        let mut i = 0;
        while i < N {
            let k = s.upto(3) as usize;
            if i < n {
                let c = ALPHA[k];
                len += c.encode_utf8(&mut buf[len..]).len();
            }
            i += 1;
        }
        StrInp { buf, len, chars: n }
    }
    pub fn get(&self) -> &str {
        // valid by construction (concatenation of encode_utf8 outputs)
        unsafe { core::str::from_utf8_unchecked(&self.buf[..self.len]) }
    }
}

/// @harness props=C07:Q,C20:T n=3 err=Cheap timeout=900 input=&str_of_up_to_3_chars_from_{a,é,€,😀}
/// @shape sl(any then 'é'?) then sl(any*)  on &str, every capture as (slice via to_slice, span via map_with)
/// @symbolic each character: index 0..=3 into the alphabet; number of characters 0..=3
/// @aims &str spans are byte offsets on character boundaries; to_slice returns the caller's memory (same pointer), equal to input[span]
pub fn c07_str_slices_body<S: Src>(s: &mut S) {
    let si = StrInp::<3>::any(s);
    let x = si.get();
    let head = any::<&str, X>()
        .then(just::<char, &str, X>('é').or_not())
        .to_slice()
        .map_with(|sl: &str, e| {
            let sp: SimpleSpan = e.span();
            (sl, sp)
        });
    let tail = any::<&str, X>().repeated().to_slice().map_with(|sl: &str, e| {
        let sp: SimpleSpan = e.span();
        (sl, sp)
    });
    let r = head.then(tail).parse(x);
    contract(&r);
    if let Some(((s1, p1), (s2, p2))) = r.output() {
        check!("C07:span-well-formed", p1.start <= p1.end && p1.end <= x.len() && p2.start <= p2.end && p2.end <= x.len());
        check!("C07:span-on-char-boundary", x.is_char_boundary(p1.start) && x.is_char_boundary(p1.end) && x.is_char_boundary(p2.end));
        check!("C07:siblings-ordered-and-adjacent", p1.start == 0 && p1.end == p2.start && p2.end == x.len());
        check!("C07:slice-is-callers-memory", s1.as_ptr() == x.as_ptr() && s2.as_ptr() as usize == x.as_ptr() as usize + p2.start);
        check!("C07:slice-equals-input-span", s1.len() == p1.end - p1.start && s2.len() == p2.end - p2.start);
        // first capture = exactly one character, plus 'é' (2 bytes) if it follows
        let c0 = x.chars().next();
        if let Some(c0) = c0 {
            let l0 = c0.len_utf8();
            let follows = x.len() >= l0 + 2 && x.as_bytes()[l0] == 0xC3 && x.as_bytes()[l0 + 1] == 0xA9;
            check!("C07:span-covers-exactly-what-was-consumed", s1.len() == l0 + if follows { 2 } else { 0 });
        }
    }
    cover!("cover:accept-multibyte", r.has_output() && x.len() > si.chars && si.chars == 3);
    cover!("cover:reject", !r.has_output());
}

type XB<'a> = extra::Err<Cheap>;
type IB<'a> = &'a [u8];

fn spn<'a, O: 'a>(p: impl Parser<'a, IB<'a>, O, XB<'a>> + Clone) -> impl Parser<'a, IB<'a>, (usize, usize), XB<'a>> + Clone {
    p.map_with(|_o: O, e| {
        let sp: SimpleSpan = e.span();
        (sp.start, sp.end)
    })
}

/// @harness props=C07:Q,C20:T n=3 err=Cheap
/// @shape P = sp( sp(t0?) sp(empty) sp(any) sp(t1*).to_span ) then sp(any*)   [children vs parent; empty matches between tokens]
/// @symbolic t0, t1: u8
/// @aims child spans nested in and ordered within the parent's; a match that consumed nothing gets an empty span between its neighbours; to_span == map_with span
pub fn c07_nesting_body<S: Src>(s: &mut S) {
    let t = [s.u8(), s.u8()];
    let inp = Inp::<3>::any(s);
    let x = inp.get();
    let j = |c: u8| just::<u8, IB, XB>(c);
    let a = spn(j(t[0]).or_not());
    let b = empty::<IB, XB>().to_span().map(|sp: SimpleSpan| (sp.start, sp.end));
    let c = spn(any::<IB, XB>());
    let d = j(t[1]).repeated().to_span().map(|sp: SimpleSpan| (sp.start, sp.end));
    let parent = a.then(b).then(c).then(d).map_with(|(((a, b), c), d), e| {
        let sp: SimpleSpan = e.span();
        ((sp.start, sp.end), a, b, c, d)
    });
    let r = parent.then(spn(any::<IB, XB>().repeated())).parse(x);
    contract(&r);
    if let Some(((p, a, b, c, d), rest)) = r.output() {
        let n = x.len();
        check!("C07:span-well-formed", a.0 <= a.1 && b.0 <= b.1 && c.0 <= c.1 && d.0 <= d.1 && p.0 <= p.1 && rest.1 <= n);
        check!("C07:children-nested-in-parent", p.0 <= a.0 && d.1 <= p.1 && p.0 == 0);
        check!("C07:children-ordered", a.1 <= b.0 && b.1 <= c.0 && c.1 <= d.0);
        check!("C07:empty-match-has-empty-span-between-neighbours", b.0 == b.1 && b.0 == a.1 && b.1 == c.0);
        check!("C07:optional-that-matched-nothing-has-empty-span", a.0 == 0 && (a.1 == 0 || (a.1 == 1 && x[0] == t[0])));
        check!("C07:span-covers-exactly-what-was-consumed", c.1 == c.0 + 1 && p.1 == d.1 && rest.0 == p.1 && rest.1 == n);
        let mut k = c.1;
        while k < n && x[k] == t[1] {
            k += 1;
        }
        check!("C07:to_span-of-repetition", d.0 == c.1 && d.1 == k);
    }
    cover!("cover:accept", r.has_output() && x.len() == 3);
    cover!("cover:reject", !r.has_output());
}

/// @harness props=C07:Q,C20:T n=3 err=Cheap
/// @shape any.try_map(span).foldl_with(t0*, span-of-fold-so-far)
/// @symbolic t0: u8
/// @aims the span arguments of try_map and foldl_with (from the START of the fold to the current position)
pub fn c07_callbacks_body<S: Src>(s: &mut S) {
    let t = [s.u8()];
    let inp = Inp::<3>::any(s);
    let x = inp.get();
    let j = |c: u8| just::<u8, IB, XB>(c);
    let tm = any::<IB, XB>().try_map(|_t: u8, sp: SimpleSpan| Ok::<_, Cheap>((sp.start, sp.end, 0usize)));
    let fl = tm.foldl_with(j(t[0]).repeated(), |acc: (usize, usize, usize), _y: u8, e| {
        let sp: SimpleSpan = e.span();
        // every fold step sees the span from the START of the fold to the current position, growing by one token
        if sp.start == acc.0 && sp.end == acc.1 + 1 {
            (sp.start, sp.end, acc.2 + 1)
        } else {
            (99, 99, 99)
        }
    });
    let r = fl.parse(x);
    contract(&r);
    if let Some(l) = r.output() {
        check!("C07:try_map-and-foldl_with-spans", l.0 == 0 && l.1 == x.len() && l.2 + 1 == x.len());
    }
    cover!("cover:accept-fold-two-steps", r.has_output() && x.len() == 3);
    cover!("cover:reject", !r.has_output());
}

/// @harness props=C07:Q,C20:T n=3 err=Cheap
/// @shape t0*.foldr_with(any.validate(span), span-from-this-item-to-the-end)
/// @symbolic t0: u8
/// @aims foldr_with: the span of each step runs from the start of THAT item to the end of the fold (not from the start of the whole fold); validate's span
pub fn c07_foldr_with_body<S: Src>(s: &mut S) {
    let t = [s.u8()];
    let inp = Inp::<3>::any(s);
    let x = inp.get();
    let j = |c: u8| just::<u8, IB, XB>(c);
    let fr = j(t[0]).repeated().foldr_with(
        any::<IB, XB>().validate(|_t: u8, e, _em| {
            let sp: SimpleSpan = e.span();
            (sp.start, sp.end, 0usize)
        }),
        |_x: u8, acc: (usize, usize, usize), e| {
            let sp: SimpleSpan = e.span();
            // folding from the right: each step's span starts one token earlier and ends where the fold ends
            if sp.end == acc.1 && sp.start + 1 == acc.0 {
                (sp.start, sp.end, acc.2 + 1)
            } else {
                (99, 99, 99)
            }
        },
    );
    let r = fr.parse(x);
    contract(&r);
    if let Some(rr) = r.output() {
        check!("C07:validate-and-foldr_with-spans", rr.0 == 0 && rr.1 == x.len() && rr.2 + 1 == x.len());
    }
    cover!("cover:accept-fold-two-steps", r.has_output() && x.len() == 3);
    cover!("cover:reject", !r.has_output());
}

/// tokens with their own, gapped spans: token i occupies g_i .. g_i + w_i with a gap before the next
fn gapped<S: Src>(s: &mut S, toks: &[u8]) -> ([(u8, SimpleSpan); 3], usize) {
    let mut out = [(0u8, SimpleSpan::from(0..0)); 3];
    let mut pos = 0usize;
    let mut i = 0;
    while i < 3 {
        let gap = s.upto(3) as usize;
        let w = 1 + s.upto(2) as usize;
        let start = pos + gap;
        let end = start + w;
        if i < toks.len() {
            out[i] = (toks[i], SimpleSpan::from(start..end));
        }
        pos = end;
        i += 1;
    }
    (out, pos)
}

/// @harness props=C07:Q,C20:T n=3 err=Cheap timeout=900 input=Input::map_over_&[(u8,SimpleSpan)]_gapped_symbolic_spans
/// @shape (t0 t1?) | (t0 any any)  with to_span / map_with on a NON-EMPTY match, tokens carry gapped spans; eoi span len..len
/// @symbolic t0, t1: u8; per token: gap 0..=3, width 1..=3
/// @aims a non-empty match spans from the start of its first consumed token to the end of its last, also after a rewind
pub fn c07_mapped_nonempty_body<S: Src>(s: &mut S) {
    let t = [s.u8(), s.u8()];
    let inp = Inp::<3>::any(s);
    let x = inp.get();
    let (toks, total) = gapped(s, x);
    let toks = &toks[..x.len()];
    let eoi = SimpleSpan::from(total..total);
    let input = toks.map(eoi, |(t, s): &(u8, SimpleSpan)| (t, s));
    type XM<'a> = extra::Err<Cheap>;
    let alt1 = just(t[0]).then(just(t[1]).or_not()).to_span().then_ignore(end());
    let alt2 = just(t[0]).then(any()).then(any()).map_with(|_, e| e.span());
    let p = alt1.or(alt2);
    fn assert_parser<'a, I: chumsky::input::ValueInput<'a, Token = u8, Span = SimpleSpan>, P: Parser<'a, I, SimpleSpan, XM<'a>>>(p: P) -> P {
        p
    }
    let p = assert_parser(p);
    let r = p.parse(input);
    contract(&r);
    if let Some(sp) = r.output() {
        let n = toks.len();
        check!("C07:mapped-span-starts-at-first-token", sp.start == toks[0].1.start);
        check!("C07:mapped-span-ends-at-last-token", n > 0 && sp.end == toks[n - 1].1.end);
        check!("C07:span-well-formed", sp.start <= sp.end);
    }
    cover!("cover:accept-after-rewind", r.has_output() && x.len() == 3);
    cover!("cover:accept-first", r.has_output() && x.len() == 2);
    cover!("cover:reject", !r.has_output());
}

/// @harness props=C07:Q,C20:T n=3 err=Cheap timeout=900 input=Input::map_over_&[(u8,SimpleSpan)]_gapped_symbolic_spans
/// @shape (any_ref then any_ref?).to_span then any_ref*   [tokens taken BY REFERENCE: BorrowInput::next_ref], tokens carry gapped spans
/// @symbolic per token: gap 0..=3, width 1..=3
/// @aims the by-reference token path of a mapped input keeps the end of the last consumed token: span = first.start .. last.end
pub fn c07_mapped_ref_body<S: Src>(s: &mut S) {
    let inp = Inp::<3>::any(s);
    let x = inp.get();
    let (toks, total) = gapped(s, x);
    let toks = &toks[..x.len()];
    let eoi = SimpleSpan::from(total..total);
    let input = toks.map(eoi, |(t, s): &(u8, SimpleSpan)| (t, s));
    type XM<'a> = extra::Err<Cheap>;
    fn assert_parser<'a, I: chumsky::input::BorrowInput<'a, Token = u8, Span = SimpleSpan>, O, P: Parser<'a, I, O, XM<'a>>>(p: P) -> P {
        p
    }
    let head = any_ref().then(any_ref().or_not()).map_with(|(a, b): (&u8, Option<&u8>), e| {
        let sp: SimpleSpan = e.span();
        (*a, b.is_some(), sp)
    });
    let p = assert_parser(head.then(any_ref().repeated().to_span()));
    let r = p.parse(input);
    contract(&r);
    if let Some(((a, two, sp), rest)) = r.output() {
        let n = toks.len();
        let last = if *two { 1 } else { 0 };
        check!("C07:by-ref-token-is-the-callers-token", *a == toks[0].0);
        check!("C07:mapped-span-starts-at-first-token", sp.start == toks[0].1.start);
        check!("C07:mapped-span-ends-at-last-token", sp.end == toks[last].1.end);
        if n == 3 {
            check!("C07:mapped-span-of-following-match", rest.start == toks[2].1.start && rest.end == toks[2].1.end);
        }
    }
    cover!("cover:accept-two-then-rest", r.has_output() && x.len() == 3);
    cover!("cover:reject", !r.has_output());
}

/// @harness props=C07:Q,C20:T n=3 err=Cheap timeout=900 finding=F9 input=Input::map_over_&[(u8,SimpleSpan)]_gapped_symbolic_spans
/// @shape any then empty.to_span() then any     and     empty.to_span() at the very start       (EMPTY matches, gapped spans)
/// @symbolic per token: gap 0..=3, width 1..=3
/// @aims a match that consumed nothing gets an EMPTY span lying between the preceding and the following token
pub fn c07_mapped_empty_body<S: Src>(s: &mut S) {
    let inp = Inp::<3>::any(s);
    let x = inp.get();
    let (toks, total) = gapped(s, x);
    let toks = &toks[..x.len()];
    // the end-of-input span is NOT empty in general (it may cover trailing blanks): total+g .. total+g+w
    let (g, w) = (s.upto(2) as usize, s.upto(2) as usize);
    let eoi = SimpleSpan::from(total + g..total + g + w);
    let input = toks.map(eoi, |(t, s): &(u8, SimpleSpan)| (t, s));
    type XM<'a> = extra::Err<Cheap>;
    fn assert_parser<'a, I: chumsky::input::ValueInput<'a, Token = u8, Span = SimpleSpan>, O, P: Parser<'a, I, O, XM<'a>>>(p: P) -> P {
        p
    }
    let p = assert_parser(
        empty().to_span().then(any().or_not()).then(empty().to_span()).then(any().repeated()).then(any().or_not().to_span()),
    );
    let r = p.parse(input);
    contract(&r);
    if let Some(((((e0, first), e1), ()), e2)) = r.output() {
        let n = toks.len();
        check!("C07:empty-match-has-empty-span", e0.start == e0.end);
        check!("C07:empty-match-has-empty-span", e1.start == e1.end);
        // the last capture is an optional at the very end of the token list: it consumed nothing
        check!("C07:empty-match-at-end-of-input-has-empty-span", e2.start == e2.end);
        if n >= 1 {
            check!("C07:empty-span-before-first-token", e0.end <= toks[0].1.start);
            check!("C07:empty-span-after-last-token", e2.start >= toks[n - 1].1.end);
        }
        if n >= 2 && first.is_some() {
            check!("C07:empty-span-between-neighbours", toks[0].1.end <= e1.start && e1.end <= toks[1].1.start);
        }
    }
    cover!("cover:accept", r.has_output() && x.len() == 3);
    cover!("cover:wide-eoi", r.has_output() && w == 2 && x.len() >= 1);
}

/// @harness props=C07:Q,C10:T,C20:T n=3 err=Cheap timeout=900 input=IterInput_over_(u8,SimpleSpan)_with_gapped_symbolic_spans_and_a_later_end-of-input_span
/// @shape (t0 any?).to_span then any*.to_span   on IterInput, tokens carry gapped spans, the end-of-input span lies beyond the last token
/// @symbolic t0: u8; per token: gap 0..=3, width 1..=3; gap before the end-of-input span 0..=2
/// @aims a non-empty match on an IterInput spans from the start of its first consumed token to the END OF ITS LAST consumed token (not to the end of the input), also when that token is the last one
pub fn c07_iter_gapped_body<S: Src>(s: &mut S) {
    let t0 = s.u8();
    let inp = Inp::<3>::any(s);
    let x = inp.get();
    let (toks, total) = gapped(s, x);
    let n = x.len();
    let g = s.upto(2) as usize;
    let eoi = SimpleSpan::from(total + g..total + g);
    let it = toks[..n].iter().copied();
    let input = chumsky::input::IterInput::new(it, eoi);
    type XM<'a> = extra::Err<Cheap>;
    fn assert_parser<'a, I: chumsky::input::Input<'a, Token = u8, Span = SimpleSpan>, O, P: Parser<'a, I, O, XM<'a>>>(p: P) -> P {
        p
    }
    let head = just(t0).then(just(t0).or_not()).map_with(|(_, b): (u8, Option<u8>), e| {
        let sp: SimpleSpan = e.span();
        (b.is_some(), sp)
    });
    let p = assert_parser(head.then(just(t0).repeated().to_span()));
    let r = p.parse(input);
    contract(&r);
    if let Some(((two, sp), rest)) = r.output() {
        let last = if *two { 1 } else { 0 };
        check!("C07:mapped-span-starts-at-first-token", sp.start == toks[0].1.start);
        check!("C07:mapped-span-ends-at-last-token", sp.end == toks[last].1.end);
        if n == 3 {
            check!("C07:mapped-span-of-following-match", rest.start == toks[2].1.start && rest.end == toks[2].1.end);
        }
    }
    cover!("cover:match-ends-at-last-token-before-a-gap", r.has_output() && n == 2 && g > 0);
    cover!("cover:reject", !r.has_output());
}

crate::harnesses! {
    c07_str_slices [8] = c07_str_slices_body;
    c07_nesting [6] = c07_nesting_body;
    c07_callbacks [6] = c07_callbacks_body;
    c07_foldr_with [6] = c07_foldr_with_body;
    c07_mapped_ref [6] = c07_mapped_ref_body;
    c07_mapped_nonempty [6] = c07_mapped_nonempty_body;
    c07_mapped_empty [6] = c07_mapped_empty_body;
    c07_iter_gapped [6] = c07_iter_gapped_body;
}
