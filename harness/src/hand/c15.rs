//! C15 — context-sensitive parsing: the nearest enclosing provider wins; configuration from context behaves like
//! the statically configured parser.
use crate::sym::{Inp, Src};
use crate::{check, contract, cover};
use chumsky::error::Cheap;
use chumsky::extra;
use chumsky::prelude::*;

type I<'a> = &'a [u8];
/// extra with a `u8` context
type XC<'a> = extra::Full<Cheap, (), u8>;
type X0<'a> = extra::Err<Cheap>;

/// @harness props=C15:Q,C04:Q,C20:T n=4 err=Cheap
/// @shape n:any then_with_ctx ( t0.repeated().configure(exactly(n & 3)) ) collected / used as a unit parser (to_slice) — symbolic choice
/// @symbolic t0: u8; as_unit: bool
/// @aims repeated().configure(exactly(n)) from context == statically configured exactly(n), in the collecting AND in the plain-parser (Check) path
pub fn c15_length_prefixed_body<S: Src>(s: &mut S) {
    let t0 = s.u8();
    let as_unit = s.bool();
    let inp = Inp::<4>::any(s);
    let x = inp.get();
    let item = just::<u8, I, XC>(t0).repeated().configure(|c, n: &u8| c.exactly((*n & 3) as usize));
    let r = if as_unit {
        any::<I, X0>().then_with_ctx(item.to_slice().map(|s: &[u8]| s.len())).parse(x)
    } else {
        any::<I, X0>().then_with_ctx(item.collect::<Vec<u8>>().map(|v: Vec<u8>| v.len())).parse(x)
    };
    contract(&r);
    // oracle: x = [n, t0 * (n & 3)]
    let want = if x.is_empty() {
        false
    } else {
        let k = (x[0] & 3) as usize;
        let mut ok = x.len() == 1 + k;
        let mut i = 1;
        while i < x.len() {
            ok &= x[i] == t0;
            i += 1;
        }
        ok
    };
    check!("C15:configured-from-context-equals-static", r.has_output() == want);
    if let Some((n, k)) = r.output() {
        check!("C15:configured-count", *k == (*n & 3) as usize);
    }
    cover!("cover:accept-3-items", r.has_output() && x.len() == 4);
    cover!("cover:reject-too-many", !r.has_output() && x.len() == 4);
}

/// @harness props=C15:Q,C20:T n=4 err=Cheap
/// @shape n:any then_with_ctx ( t0.repeated().at_most(2).configure(at_least(n & 1)).collect() then any* )
/// @symbolic t0: u8
/// @aims a configuration that sets only at_least must keep the statically configured at_most
pub fn c15_static_cap_body<S: Src>(s: &mut S) {
    let t0 = s.u8();
    let inp = Inp::<4>::any(s);
    let x = inp.get();
    let item = just::<u8, I, XC>(t0)
        .repeated()
        .at_most(2)
        .configure(|c, n: &u8| c.at_least((*n & 1) as usize))
        .collect::<Vec<u8>>()
        .then(any::<I, XC>().repeated().count());
    let r = any::<I, X0>().then_with_ctx(item).parse(x);
    contract(&r);
    if let Some((n, (v, rest))) = r.output() {
        let lo = (*n & 1) as usize;
        check!("C15:static-at_most-kept-under-configure", v.len() <= 2 && v.len() >= lo);
        // greedy: took min(2, number of leading t0 after the prefix)
        let mut lead = 0;
        while 1 + lead < x.len() && x[1 + lead] == t0 {
            lead += 1;
        }
        check!("C15:configured-repetition-greedy-within-bounds", v.len() == if lead > 2 { 2 } else { lead });
        check!("C15:remainder", v.len() + rest + 1 == x.len());
    }
    cover!("cover:cap-reached", r.has_output() && x.len() == 4 && x[3] == t0 && x[1] == t0 && x[2] == t0);
    cover!("cover:reject", !r.has_output());
}

/// @harness props=C15:Q,C04:Q,C20:T n=3 err=Cheap
/// @shape d:any ignore_with_ctx ( any then just(0).configure(seq = ctx) ), the configured `just` used by VALUE and by REFERENCE, parse() and check()
/// @symbolic by_ref: bool
/// @aims just(..).configure(seq) from context == static just(d), also through the `&P` forwarding impl and in check mode
pub fn c15_delimiter_echo_body<S: Src>(s: &mut S) {
    let by_ref = s.bool();
    let inp = Inp::<3>::any(s);
    let x = inp.get();
    let close = just::<u8, I, XC>(0u8);
    let want = x.len() == 3 && x[2] == x[0];
    let (acc, chk) = if by_ref {
        let body = any::<I, XC>().then_ignore((&close).configure(|c, d: &u8| c.seq(*d)));
        let p = any::<I, X0>().ignore_with_ctx(body);
        (p.parse(x).has_output(), p.check(x).has_output())
    } else {
        let body = any::<I, XC>().then_ignore(close.configure(|c, d: &u8| c.seq(*d)));
        let p = any::<I, X0>().ignore_with_ctx(body);
        (p.parse(x).has_output(), p.check(x).has_output())
    };
    check!("C15:configured-just-equals-static", acc == want);
    check!("C15:configured-just-in-check-mode", chk == want);
    cover!("cover:accept", acc);
    cover!("cover:reject-wrong-close", !acc && x.len() == 3);
}

/// @harness props=C15:Q,C20:T n=4 err=Cheap timeout=900
/// @shape ( (a:any then_with_ctx (t0 -> ctx)) | (b:t1.to(99) then_with_ctx (any -> ctx)) ).repeated()  inside with_ctx(77), then any->ctx
/// @symbolic t0, t1: u8
/// @aims every consumer sees the value of the NEAREST provider for this very attempt: per iteration, after an abandoned alternative, and the outer value again afterwards
pub fn c15_nearest_body<S: Src>(s: &mut S) {
    let t = [s.u8(), s.u8()];
    let inp = Inp::<4>::any(s);
    let x = inp.get();
    // inner consumers report (provider value they SHOULD see, value they saw)
    let alt1 = any::<I, XC>().then_with_ctx(just::<u8, I, XC>(t[0]).map_with(|_, e| *e.ctx())).map(|(a, seen)| (a, seen));
    let alt2 = just::<u8, I, XC>(t[1])
        .to(99u8)
        .then_with_ctx(any::<I, XC>().map_with(|_, e| *e.ctx()))
        .map(|(a, seen)| (a, seen));
    let items = alt1.or(alt2).repeated().collect::<Vec<(u8, u8)>>();
    let tail = any::<I, XC>().or_not().map_with(|_, e| *e.ctx());
    let p = items.then(tail).with_ctx(77u8);
    let p: chumsky::combinator::WithCtx<_, u8> = p;
    let r = Parser::<I, _, X0>::parse(&p, x);
    contract(&r);
    if let Some((v, outer)) = r.output() {
        let mut ok = true;
        let mut i = 0;
        while i < v.len() {
            ok &= v[i].0 == v[i].1;
            i += 1;
        }
        check!("C15:consumer-sees-nearest-provider", ok);
        check!("C15:outer-context-restored-after-inner-provider", *outer == 77);
    }
    cover!("cover:two-iterations", r.output().map(|o| o.0.len() == 2).unwrap_or(false));
    cover!("cover:second-alternative-after-first-failed", r.output().map(|o| o.0.len() >= 1 && o.0[0].0 == 99).unwrap_or(false) && x[0] == t[1]);
}

/// @harness props=C15:Q,C20:T n=3 err=Cheap
/// @shape n:any then_with_ctx ( t0.repeated().try_configure(|c, n, span| if n < 3 { exactly(n) } else { Err }) ) | n:any then any*  ;  map_ctx(|n| n+1, ..)
/// @symbolic t0: u8
/// @aims try_configure returning Err is a failure of that parser (the enclosing choice falls through); map_ctx delivers the mapped value
pub fn c15_try_configure_body<S: Src>(s: &mut S) {
    let t0 = s.u8();
    let inp = Inp::<3>::any(s);
    let x = inp.get();
    let item = just::<u8, I, XC>(t0)
        .repeated()
        .try_configure(|c, n: &u8, span| if *n < 3 { Ok(c.exactly(*n as usize)) } else { Err(Cheap::new(span)) })
        .count();
    let seen = map_ctx::<_, _, _, XC, extra::Full<Cheap, (), u8>, _>(|n: &u8| n.wrapping_add(1), any::<I, extra::Full<Cheap, (), u8>>().or_not().map_with(|_, e| *e.ctx()));
    let alt1 = any::<I, X0>().then_with_ctx(item.then(seen)).map(|(n, (k, seen))| (1u8, n, k, seen));
    let alt2 = any::<I, X0>().then(any::<I, X0>().repeated().count()).map(|(n, k)| (2u8, n, k, 0u8));
    let r = alt1.or(alt2).parse(x);
    contract(&r);
    if let Some((which, n, k, seen)) = r.output() {
        if *which == 1 {
            check!("C15:try_configure-ok-applies-config", *n < 3 && *k == *n as usize);
            check!("C15:map_ctx-delivers-mapped-value", *seen == n.wrapping_add(1));
        } else {
            // the first alternative must have been impossible: either try_configure refused, or the count did not fit
            let mut lead = 0;
            while 1 + lead < x.len() && x[1 + lead] == t0 {
                lead += 1;
            }
            let fits = *n < 3 && lead >= *n as usize && x.len() <= 1 + *n as usize + 1;
            check!("C15:try_configure-err-is-failure", !fits);
        }
    }
    cover!("cover:configured", r.output().map(|o| o.0 == 1).unwrap_or(false));
    cover!("cover:refused", r.output().map(|o| o.0 == 2 && o.1 >= 3).unwrap_or(false));
}

/// @harness props=C15:Q,C02:Q,C20:T n=4 err=Cheap timeout=900
/// @shape n:any then_with_ctx ( t0.repeated().at_least(lo).at_most(hi).configure(MODE(n & 3)) then any* ), MODE in {nothing, at_least, at_most, exactly}; collected / unit parser
/// @symbolic t0: u8; lo, hi in 0..=3; mode in 0..=3; as_unit: bool
/// @assume effective at_least <= effective at_most (the inverted interval is known finding F4)
/// @aims a configuration REPLACES exactly the bounds it sets and keeps the statically configured ones it does not set (at_least as well as at_most), in the collecting and in the unit-parser path
pub fn c15_cfg_partial_body<S: Src>(s: &mut S) {
    let t0 = s.u8();
    let lo = s.upto(3) as usize;
    let hi = s.upto(3) as usize;
    let mode = s.upto(3);
    let as_unit = s.bool();
    let inp = Inp::<4>::any(s);
    let x = inp.get();
    let k = if x.is_empty() { 0 } else { (x[0] & 3) as usize };
    let (elo, ehi) = match mode {
        0 => (lo, hi),
        1 => (k, hi),
        2 => (lo, k),
        _ => (k, k),
    };
    crate::sym::assume(lo <= hi && elo <= ehi);
    let rep = just::<u8, I, XC>(t0).repeated().at_least(lo).at_most(hi).configure(move |c, n: &u8| {
        let k = (*n & 3) as usize;
        match mode {
            0 => c,
            1 => c.at_least(k),
            2 => c.at_most(k),
            _ => c.exactly(k),
        }
    });
    let rest = any::<I, XC>().repeated().count();
    let r = if as_unit {
        any::<I, X0>().then_with_ctx(rep.to_slice().map(|s: &[u8]| s.len()).then(rest)).parse(x)
    } else {
        any::<I, X0>().then_with_ctx(rep.collect::<Vec<u8>>().map(|v: Vec<u8>| v.len()).then(rest)).parse(x)
    };
    contract(&r);
    let mut lead = 0;
    while 1 + lead < x.len() && x[1 + lead] == t0 {
        lead += 1;
    }
    let taken = if lead > ehi { ehi } else { lead };
    let want = !x.is_empty() && taken >= elo;
    check!("C15:configured-bounds-acceptance", r.has_output() == want);
    if let Some((_, (cnt, rest))) = r.output() {
        check!("C15:configured-bounds-count", *cnt == taken);
        check!("C15:configured-bounds-remainder", 1 + *cnt + *rest == x.len());
    }
    cover!("cover:static-at_least-decides", !r.has_output() && mode == 2 && lead < lo && !x.is_empty());
    cover!("cover:configured-at_most-above-static", r.has_output() && mode == 2 && k > hi && lead > hi);
    cover!("cover:unit-path-configured", r.has_output() && as_unit && mode == 3 && k == 2);
}

crate::harnesses! {
    c15_cfg_partial [8] = c15_cfg_partial_body;
    c15_length_prefixed [7] = c15_length_prefixed_body;
    c15_static_cap [7] = c15_static_cap_body;
    c15_delimiter_echo [6] = c15_delimiter_echo_body;
    c15_nearest [7] = c15_nearest_body;
    c15_try_configure [6] = c15_try_configure_body;
}
