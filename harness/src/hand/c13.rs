//! C13 — parsers are pure values: a history of parses through the original, a clone, a reference, Box, Rc, Arc,
//! boxed(), Either gives for each input the same result as a fresh parser.
//!
//! @default harness props=C13:Q,C20:T n=2 err=Cheap timeout=900
//! @default shape the grammar of c13_history used through ONE forwarding impl per harness (name: c13_w_<clone|ref|box|rc|arc|boxed|either>): first parse(x1) on the original, then the wrapper parses x2; compared with a fresh parser on x2
//! @default symbolic t0..t3: u8; two independent inputs x1, x2 of length 0..=2
//! @default aims every forwarding impl (Clone, &T, Box, Rc, Arc, Boxed, Either) gives the result of the underlying parser, whatever was parsed before
use crate::errs::MkErr;
use crate::obs::{same, Tr};
use crate::prims::pc::*;
use crate::sym::{Inp, Src};
use crate::{check, contract, cover};
use std::rc::Rc;
use std::sync::Arc;

fn grammar<'a>(t: [u8; 4]) -> impl Parser<'a, I<'a>, Tr, X<'a>> + Clone {
    or(
        then(j(t[0]), rep_inf(j(t[1]), 0)),
        // (a fallback that can itself FAIL: a strategy that gave up on one input must be tried again on the next)
        rec_via(then(j(t[2]), j(t[3])), to_(j(t[1]), 0xFB)),
    )
}

macro_rules! same_result {
    ($label:literal, $r:expr, $f:expr) => {{
        let (r, f) = ($r, $f);
        contract(&r);
        check!($label, r.has_output() == f.has_output() && same(&r.output().copied(), &f.output().copied()));
        let (_, e1) = r.into_output_errors();
        let (_, e2) = f.into_output_errors();
        check!($label, e1.len() == e2.len());
        if let (Some(a), Some(b)) = (e1.last(), e2.last()) {
            check!($label, a.start() == b.start() && a.end() == b.end());
        }
    }};
}

/// @harness props=C13:Q,C20:T n=2 err=Cheap timeout=900
/// @shape p = (t0 t1*) | (t2 t3).recover_with(via_parser(t1)) ; history: p.parse(x1); p.parse(x2); compare the 2nd with fresh(p).parse(x2)
/// @symbolic t0..t3: u8; two independent inputs x1, x2 of length 0..=2 (all orders of failing / succeeding / recovering first parses)
/// @aims no state survives from one parse to the next on the same parser value
pub fn c13_history_body<S: Src>(s: &mut S) {
    let t = [s.u8(), s.u8(), s.u8(), s.u8()];
    let i1 = Inp::<2>::any(s);
    let i2 = Inp::<2>::any(s);
    let (x1, x2) = (i1.get(), i2.get());
    let p = grammar(t);
    let first = p.parse(x1);
    contract(&first);
    let second = p.parse(x2);
    let fresh = grammar(t).parse(x2);
    same_result!("C13:second-parse-equals-fresh-parser", second, fresh);
    cover!("cover:fail-then-succeed", !first.has_output() && x2.len() == 2 && x2[0] == t[0] && x2[1] == t[1]);
    cover!("cover:recover-then-fail", first.has_errors() && first.has_output());
    cover!("cover:strategy-gave-up-then-recovers", !first.has_output() && x1.len() == 1 && x2.len() == 1 && x2[0] == t[1] && t[1] != t[0] && t[1] != t[2]);
}

/// the same grammar used through one forwarding impl (K): after a first parse on x1, the wrapper parses x2
fn wrappers<const K: u8, S: Src>(s: &mut S) {
    let t = [s.u8(), s.u8(), s.u8(), s.u8()];
    let i1 = Inp::<2>::any(s);
    let i2 = Inp::<2>::any(s);
    let (x1, x2) = (i1.get(), i2.get());
    let p = grammar(t);
    let _ = p.parse(x1);
    let fresh = grammar(t).parse(x2);
    let got = match K {
        0 => p.clone().parse(x2),
        1 => (&p).parse(x2),
        2 => Box::new(p.clone()).parse(x2),
        3 => Rc::new(p.clone()).parse(x2),
        4 => Arc::new(p.clone()).parse(x2),
        5 => p.clone().boxed().parse(x2),
        _ => {
            let e: either::Either<_, chumsky::primitive::Any<I, X>> = either::Either::Left(p.clone());
            let e = e.map_right(|a| a.map(Tr::tok));
            // Either<L, R>: both sides must be parsers with the same output
            fn run<'a, L: Parser<'a, I<'a>, Tr, X<'a>>, R: Parser<'a, I<'a>, Tr, X<'a>>>(
                e: either::Either<L, R>,
                x: &'a [u8],
            ) -> chumsky::ParseResult<Tr, chumsky::error::Cheap> {
                e.parse(x)
            }
            run(e, x2)
        }
    };
    same_result!("C13:wrapper-equals-fresh-parser", got, fresh);
    cover!("cover:accept", x2.len() == 2 && x2[0] == t[0] && x2[1] == t[1]);
}
pub fn c13_w_clone_body<S: Src>(s: &mut S) {
    wrappers::<0, S>(s)
}
pub fn c13_w_ref_body<S: Src>(s: &mut S) {
    wrappers::<1, S>(s)
}
pub fn c13_w_box_body<S: Src>(s: &mut S) {
    wrappers::<2, S>(s)
}
pub fn c13_w_rc_body<S: Src>(s: &mut S) {
    wrappers::<3, S>(s)
}
pub fn c13_w_arc_body<S: Src>(s: &mut S) {
    wrappers::<4, S>(s)
}
pub fn c13_w_boxed_body<S: Src>(s: &mut S) {
    wrappers::<5, S>(s)
}
pub fn c13_w_either_body<S: Src>(s: &mut S) {
    wrappers::<6, S>(s)
}

// (A recursive + memoized parser value reused for a second parse was tried in three sizes — down to a first input of
// at most 1 token and a second of at most 2 — and runs out of memory at 12 GB each time: two full parses through
// `Recursive::go` + `Memoized::go` + the table in one query. Not claimed. The memo table and the recursion cell are
// covered separately: the table lives in the per-parse `InputOwn` (C11 harnesses), the cell in C12.)

crate::harnesses! {
    c13_history [5] = c13_history_body;
    c13_w_clone [5] = c13_w_clone_body;
    c13_w_ref [5] = c13_w_ref_body;
    c13_w_box [5] = c13_w_box_body;
    c13_w_rc [5] = c13_w_rc_body;
    c13_w_arc [5] = c13_w_arc_body;
    c13_w_boxed [5] = c13_w_boxed_body;
    c13_w_either [5] = c13_w_either_body;
}
