//! C11 — memoization is transparent (acceptance, output, errors) and cuts left recursion.
//! Built with feature `memoization`; hashbrown is the association-list stand-in (see DESIGN section 4).
use crate::errs::MkErr;
use crate::obs::{same, Tr};
use crate::prims::pc::*;
use crate::sym::{Inp, Src};
use crate::{check, contract, cover};

fn memo<'a>(a: impl Parser<'a, I<'a>, Tr, X<'a>> + Clone) -> impl Parser<'a, I<'a>, Tr, X<'a>> + Clone {
    a.memoized()
}

macro_rules! transparent {
    ($p:expr, $q:expr, $x:expr) => {{
        let r1 = $p.parse($x);
        let r2 = $q.parse($x);
        contract(&r1);
        contract(&r2);
        let (o1, e1) = r1.into_output_errors();
        let (o2, e2) = r2.into_output_errors();
        check!("C11:memoized-changes-acceptance", o1.is_some() == o2.is_some());
        check!("C11:memoized-changes-output", same(&o1, &o2));
        check!("C11:memoized-changes-error-count", e1.len() == e2.len());
        if let (Some(a), Some(b)) = (e1.last(), e2.last()) {
            check!("C11:memoized-changes-error-span", a.start() == b.start() && a.end() == b.end());
        }
        cover!("cover:accept", o1.is_some());
        cover!("cover:reject", o1.is_none());
    }};
}

/// check mode: the memoized grammar accepts under check() exactly what the plain grammar accepts under parse(),
/// with the same number of errors (the Check-mode path of `Memoized::go` must maintain the table like the Emit one)
macro_rules! transparent_check {
    ($p:expr, $q:expr, $x:expr) => {{
        let r1 = $p.check($x);
        let r2 = $q.parse($x);
        contract(&r1);
        let (o1, e1) = r1.into_output_errors();
        let (o2, e2) = r2.into_output_errors();
        check!("C11:memoized-changes-acceptance-in-check-mode", o1.is_some() == o2.is_some());
        check!("C11:memoized-changes-error-count-in-check-mode", e1.len() == e2.len());
        if let (Some(a), Some(b)) = (e1.last(), e2.last()) {
            check!("C11:memoized-changes-error-span-in-check-mode", a.start() == b.start() && a.end() == b.end());
        }
        cover!("cover:check-accept", o1.is_some());
        cover!("cover:check-reject", o1.is_none());
    }};
}

/// @harness props=C11:Q,C04:T,C20:T n=3 err=Cheap
/// @shape check() of  (M t2) | (M t3)   with ONE memoized parser M = (t0 t1).memoized().boxed() shared by both alternatives   vs   parse() of the plain grammar
/// @symbolic t0..t3: u8
/// @aims Check mode: the second alternative re-enters the shared memoized parser at the same position after it SUCCEEDED there (the in-progress marker must be gone)
pub fn c11_shared_check_body<S: Src>(s: &mut S) {
    let t = [s.u8(), s.u8(), s.u8(), s.u8()];
    let inp = Inp::<3>::any(s);
    let x = inp.get();
    let m = memo(then(j(t[0]), j(t[1]))).boxed();
    let p = or(then(m.clone(), j(t[2])), then(m, j(t[3])));
    let plain = then(j(t[0]), j(t[1]));
    let q = or(then(plain.clone(), j(t[2])), then(plain, j(t[3])));
    transparent_check!(p, q, x);
}

/// @harness props=C11:Q,C20:T n=3 err=Cheap
/// @shape (M t2) | (any M)   with ONE memoized parser M = (t0 t1).memoized().boxed() used at position 0 and at position 1   vs   plain
/// @symbolic t0..t2: u8
/// @aims a failure of M that stopped k tokens in is remembered for the position where M STARTED, not where it stopped: M must still succeed one token later
pub fn c11_shifted_body<S: Src>(s: &mut S) {
    let t = [s.u8(), s.u8(), s.u8()];
    let inp = Inp::<3>::any(s);
    let x = inp.get();
    let m = memo(then(j(t[0]), j(t[1]))).boxed();
    let p = or(then(m.clone(), j(t[2])), then(any_(), m));
    let plain = then(j(t[0]), j(t[1]));
    let q = or(then(plain.clone(), j(t[2])), then(any_(), plain));
    transparent!(p, q, x);
    cover!("cover:second-alternative-after-partial-first", x.len() == 3 && x[0] == t[0] && x[1] == t[0] && x[2] == t[1] && t[0] != t[1]);
}

/// @harness props=C11:Q,C20:T n=3 err=Cheap
/// @shape (M t2) | (M t3)   with ONE memoized parser M = (t0 t1).memoized().boxed() shared by both alternatives   vs   plain
/// @symbolic t0..t3: u8
/// @aims the second alternative hits the memo entry of the first at the same position (cached failure replay; success entry removed)
pub fn c11_shared_body<S: Src>(s: &mut S) {
    let t = [s.u8(), s.u8(), s.u8(), s.u8()];
    let inp = Inp::<3>::any(s);
    let x = inp.get();
    let m = memo(then(j(t[0]), j(t[1]))).boxed();
    let p = or(then(m.clone(), j(t[2])), then(m, j(t[3])));
    let plain = then(j(t[0]), j(t[1]));
    let q = or(then(plain.clone(), j(t[2])), then(plain, j(t[3])));
    transparent!(p, q, x);
}

/// @harness props=C11:Q,C20:T n=3 err=Cheap
/// @shape (t0 M(t1 t2)?) | (t0 t1 M'(any))     M, M' = memoized()      vs   plain
/// @symbolic t0..t2: u8
/// @aims memoized parsers at different positions and adjacent siblings; a failing memoized parser under or_not
pub fn c11_positions_body<S: Src>(s: &mut S) {
    let t = [s.u8(), s.u8(), s.u8()];
    let inp = Inp::<3>::any(s);
    let x = inp.get();
    let p = or(
        then(j(t[0]), ornot(memo(then(j(t[1]), j(t[2]))))),
        then(j(t[0]), then(j(t[1]), memo(any_()))),
    );
    let q = or(then(j(t[0]), ornot(then(j(t[1]), j(t[2])))), then(j(t[0]), then(j(t[1]), any_())));
    transparent!(p, q, x);
}

/// @harness props=C11:Q,C20:T n=3 err=Cheap
/// @shape M(t0 t1).map_err(id) | (t2)   and   M(t0 t1).recover_with(via_parser(any))       vs   plain
/// @symbolic t0..t2: u8, which: bool
/// @aims a failing memoized parser must leave its pending error for an enclosing map_err / recover_with (no unwrap panic, same error)
pub fn c11_wrapped_body<S: Src>(s: &mut S) {
    let t = [s.u8(), s.u8(), s.u8()];
    let which = s.bool();
    let inp = Inp::<3>::any(s);
    let x = inp.get();
    if which {
        let p = or(memo(then(j(t[0]), j(t[1]))).map_err(|e| e), j(t[2]));
        let q = or(then(j(t[0]), j(t[1])).map_err(|e| e), j(t[2]));
        transparent!(p, q, x);
    } else {
        let p = rec_via(memo(then(j(t[0]), j(t[1]))), to_(any_(), 0xFB));
        let q = rec_via(then(j(t[0]), j(t[1])), to_(any_(), 0xFB));
        transparent!(p, q, x);
    }
}

/// @harness props=C11:Q,C20:T n=3 err=Cheap finding=F11
/// @shape M(M(t0) t1)  nested directly: (t0.memoized() then t1).memoized(), and t0.memoized().memoized()   vs   plain
/// @symbolic t0, t1: u8
/// @aims nested memoized parsers must not share a table key
pub fn c11_nested_body<S: Src>(s: &mut S) {
    let t = [s.u8(), s.u8()];
    let inp = Inp::<3>::any(s);
    let x = inp.get();
    let p = then(memo(then(memo(j(t[0])), j(t[1]))), ornot(any_()));
    let q = then(then(j(t[0]), j(t[1])), ornot(any_()));
    transparent!(p, q, x);
}

/// @harness props=C11:Q,C20:T n=2 err=Cheap finding=F12
/// @shape end.memoized() | any.memoized()     [two different ZERO-SIZED memoized parsers side by side]   vs   plain
/// @aims zero-sized memoized parsers must not share a table key
pub fn c11_zero_sized_body<S: Src>(s: &mut S) {
    let inp = Inp::<2>::any(s);
    let x = inp.get();
    let p = end::<I, X>().map(|()| Tr::unit()).memoized().or(any::<I, X>().map(Tr::tok).memoized());
    let q = end::<I, X>().map(|()| Tr::unit()).or(any::<I, X>().map(Tr::tok));
    transparent!(p, q, x);
}

/// @harness props=C11:Q,C20:T n=3 err=Cheap timeout=900
/// @shape expr = (expr t1 atom).memoized() | atom ; atom = t0        (left recursive; Recursive::declare / define)
/// @symbolic t0, t1: u8
/// @aims the in-progress marker cuts left recursion: parse() returns for every input (recursion unwinding assertion holds)
pub fn c11_left_recursion_body<S: Src>(s: &mut S) {
    let t = [s.u8(), s.u8()];
    let inp = Inp::<3>::any(s);
    let x = inp.get();
    let (t0, t1) = (t[0], t[1]);
    // (declare/define rather than recursive(): same `Recursive::go`, but a sized Rc handle — see hand/c12.rs)
    let mut p = chumsky::recursive::Recursive::declare();
    let atom = j(t0);
    p.define(p.clone().then(j(t1)).then(atom.clone()).map(|((a, b), c): ((Tr, Tr), Tr)| a.cat(b).cat(c).tag(1)).memoized().or(atom));
    let r = p.parse(x);
    contract(&r);
    // the base case is always reachable: a lone atom is accepted
    if x.len() == 1 && x[0] == t0 {
        check!("C11:left-recursive-grammar-accepts-atom", r.has_output() && !r.has_errors());
    }
    cover!("cover:accept", r.has_output());
    cover!("cover:reject", !r.has_output());
    // (the drop of a recursive parser is decided under C12: CBMC unrolls its Rc drop glue to the recursion bound)
    drop(r);
    core::mem::forget(p);
}

/// @harness props=C11:Q,C20:Q n=3 err=Cheap timeout=900
/// @shape expr = (expr t1 atom).memoized().map_err(id) | atom       (map_err DIRECTLY around the left-recursion cut)
/// @symbolic t0, t1: u8
/// @aims the failure produced by the left-recursion cut must leave a pending error like any other failure (map_err unwraps it)
pub fn c11_left_recursion_wrapped_body<S: Src>(s: &mut S) {
    let t = [s.u8(), s.u8()];
    let inp = Inp::<3>::any(s);
    let x = inp.get();
    let (t0, t1) = (t[0], t[1]);
    let mut expr = chumsky::recursive::Recursive::declare();
    let atom = j(t0);
    let step = expr.clone().then(j(t1)).then(atom.clone()).map(|((a, b), c): ((Tr, Tr), Tr)| a.cat(b).cat(c).tag(1)).memoized();
    expr.define(step.map_err(|e| e).or(atom));
    let r = expr.parse(x);
    contract(&r);
    if x.len() == 1 && x[0] == t0 {
        check!("C11:left-recursive-grammar-accepts-atom", r.has_output() && !r.has_errors());
    }
    cover!("cover:accept", r.has_output());
    cover!("cover:reject", !r.has_output());
    drop(r);
    core::mem::forget(expr);
}

/// @harness props=C11:T,C20:T n=2 err=Cheap timeout=1800
/// @shape expr = (expr t1 atom).memoized().recover_with(via_parser(t1 t1)) | atom       (recover_with DIRECTLY around the left-recursion cut)
/// @symbolic t0, t1: u8
/// @aims as above for recover_with
pub fn c11_left_recursion_recover_body<S: Src>(s: &mut S) {
    let t = [s.u8(), s.u8()];
    let inp = Inp::<2>::any(s);
    let x = inp.get();
    let (t0, t1) = (t[0], t[1]);
    let mut expr = chumsky::recursive::Recursive::declare();
    let atom = j(t0);
    let step = expr.clone().then(j(t1)).then(atom.clone()).map(|((a, b), c): ((Tr, Tr), Tr)| a.cat(b).cat(c).tag(1)).memoized();
    expr.define(step.recover_with(via_parser(j(t1).then(j(t1)).map(|(a, _)| a))).or(atom));
    let r = expr.parse(x);
    contract(&r);
    cover!("cover:accept", r.has_output());
    cover!("cover:reject", !r.has_output());
    drop(r);
    core::mem::forget(expr);
}

crate::harnesses_stub_caller! {
    c11_left_recursion_wrapped [9] = c11_left_recursion_wrapped_body;
    c11_left_recursion_recover [8] = c11_left_recursion_recover_body;
    c11_left_recursion [9] = c11_left_recursion_body;
}

crate::harnesses! {
    c11_shared [8] = c11_shared_body;
    c11_shared_check [8] = c11_shared_check_body;
    c11_shifted [8] = c11_shifted_body;
    c11_positions [8] = c11_positions_body;
    c11_wrapped [8] = c11_wrapped_body;
    c11_nested [8] = c11_nested_body;
    c11_zero_sized [8] = c11_zero_sized_body;
}
