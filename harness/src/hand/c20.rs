//! C20 — totality: no panic / overflow / out-of-bounds / unbounded loop for any input; failure always surfaces
//! through the error list. No oracle here: Kani's built-in checks on the REAL code (panic, `unwrap` on None,
//! arithmetic overflow, bounds, pointer validity) plus the unwinding assertions (no loop can run longer than the
//! bound for any input of that size) are the property; `contract` ties failure to the error list.
use crate::obs::Tr;
use crate::sym::{Inp, Src};
use crate::{check, contract, cover};
use chumsky::error::{Cheap, EmptyErr};
use chumsky::extra;
use chumsky::prelude::*;

/// the wrapper matrix: {map_err, map_err_with_state, recover_with(via_parser | skip_until | skip_then_retry_until),
/// labelled, memoized, or_not, repeated} x {failing just, failing custom, failing try_map, failing filter,
/// failing select} — the "can't fail" unwraps are reachable only through these stacks
macro_rules! matrix {
    ($E:ty, $s:expr, $mk_user:expr) => {{
        type X<'a> = extra::Err<$E>;
        type I<'a> = &'a [u8];
        let t = [$s.u8(), $s.u8()];
        let inner_k = $s.upto(4);
        let wrap_k = $s.upto(8);
        let inp = Inp::<3>::any($s);
        let x = inp.get();
        let mk = $mk_user;
        // ---- a failing (or succeeding) inner parser of each kind, boxed to one type
        let inner = match inner_k {
            0 => just::<u8, I, X>(t[0]).then(just(t[1])).map(|(a, _)| a).boxed(),
            1 => custom::<_, I, u8, X>(move |inp| {
                let before = inp.cursor();
                match (inp.next(), inp.next()) {
                    (Some(a), Some(b)) if b == t[1] => Ok(a),
                    _ => Err(mk(inp.span_since(&before))),
                }
            })
            .boxed(),
            2 => any::<I, X>()
                .try_map(move |a: u8, span| if a > t[0] { Ok(a) } else { Err(mk(span)) })
                .boxed(),
            3 => any::<I, X>().then(any()).map(|(a, _)| a).filter(move |a: &u8| *a > t[0]).boxed(),
            _ => chumsky::primitive::select::<_, I, u8, X>(move |a: u8, _| if a > t[0] { Some(a) } else { None }).boxed(),
        };
        // ---- each wrapper around it
        let p = match wrap_k {
            0 => inner.map_err(|e| e).boxed(),
            1 => inner.map_err_with_state(|e, _sp, _st| e).boxed(),
            2 => inner.recover_with(via_parser(any().or_not().map(|o: Option<u8>| o.unwrap_or(0)))).boxed(),
            3 => inner.recover_with(skip_until(any().ignored(), just(t[1]).ignored(), || 0u8)).boxed(),
            4 => inner.recover_with(skip_then_retry_until(any().ignored(), just(t[1]).ignored())).boxed(),
            5 => inner.labelled("x").boxed(),
            6 => inner.memoized().map_err(|e| e).boxed(),
            7 => inner.or_not().map(|o: Option<u8>| o.unwrap_or(0)).then_ignore(any().repeated()).boxed(),
            _ => inner.repeated().at_least(1).collect::<Vec<u8>>().map(|v: Vec<u8>| v.len() as u8).boxed(),
        };
        let r = p.parse(x);
        contract(&r);
        let rc = p.check(x);
        contract(&rc);
        check!("C20:check-and-parse-agree-on-output", r.has_output() == rc.has_output());
        cover!("cover:accept", r.has_output() && !r.has_errors());
        cover!("cover:reject", !r.has_output());
        cover!("cover:recovered", r.has_output() && r.has_errors());
    }};
}

/// @harness props=C20:Q n=3 err=EmptyErr timeout=1200
/// @shape W(P): W in {map_err, map_err_with_state, recover_with(via_parser|skip_until|skip_then_retry_until), labelled, memoized+map_err, or_not, repeated.at_least(1)} x P in {just seq, custom, try_map, filter, select}; wrapper and inner kind SYMBOLIC (boxed), zero-sized error type
/// @symbolic t0, t1: u8; inner kind 0..=4; wrapper 0..=8
/// @aims the zero-sized-error fast paths of add_alt / add_alt_err: every failing parser must leave a pending error for the "can't fail" unwraps
pub fn c20_matrix_emptyerr_body<S: Src>(s: &mut S) {
    matrix!(EmptyErr, s, |_span: SimpleSpan| EmptyErr::default());
}

/// @harness props=C20:Q n=3 err=Cheap timeout=1200
/// @shape the same wrapper x inner matrix with Cheap
/// @symbolic t0, t1: u8; inner kind 0..=4; wrapper 0..=8
/// @aims the same stacks with an error type that carries a span
pub fn c20_matrix_cheap_body<S: Src>(s: &mut S) {
    matrix!(Cheap, s, |span: SimpleSpan| Cheap::new(span));
}

/// @harness props=C20:Q n=3 err=Cheap input=&str_from_4_symbolic_bytes_if_valid_utf8
/// @shape &str built from up to 4 ARBITRARY bytes (kept only if valid UTF-8): any.repeated().to_slice() / (any any?).to_slice() | just('é') ... every slice taken on a char boundary
/// @symbolic 4 bytes, length 0..=4
/// @aims unchecked character decoding (&str next_maybe) never reads mid-character; slices are valid &str
pub fn c20_str_arbitrary_body<S: Src>(s: &mut S) {
    let inp = Inp::<4>::any(s);
    let b = inp.get();
    let st = match core::str::from_utf8(b) {
        Ok(st) => st,
        Err(_) => {
            crate::sym::assume(false);
            return;
        }
    };
    type X<'a> = extra::Err<Cheap>;
    let p = any::<&str, X>()
        .then(just::<char, &str, X>('é').or_not())
        .to_slice()
        .then(any::<&str, X>().repeated().to_slice());
    let r = p.parse(st);
    contract(&r);
    if let Some((a, rest)) = r.output() {
        check!("C20:slices-cover-the-input", a.len() + rest.len() == st.len());
        check!("C20:slice-on-char-boundary", st.is_char_boundary(a.len()));
    }
    cover!("cover:multibyte", r.has_output() && st.len() >= 3 && st.chars().count() < st.len());
    cover!("cover:reject", !r.has_output());
}

/// @harness props=C20:T n=3 err=Cheap timeout=1200
/// @shape text::ident / int(10) / whitespace / newline / keyword("ab") each over arbitrary bytes, chosen symbolically, padded()
/// @symbolic which 0..=4; bytes arbitrary
/// @aims text parsers on arbitrary bytes never panic
pub fn c20_text_bytes_body<S: Src>(s: &mut S) {
    let which = s.upto(4);
    let inp = Inp::<3>::any(s);
    let x = inp.get();
    type X<'a> = extra::Err<Cheap>;
    type I<'a> = &'a [u8];
    let p = match which {
        0 => text::ascii::ident::<I, X>().map(|s: &[u8]| s.len() as u8).boxed(),
        1 => text::int::<I, X>(10).map(|s: &[u8]| s.len() as u8).boxed(),
        2 => text::whitespace::<I, X>().to_slice().map(|s: &[u8]| s.len() as u8).boxed(),
        3 => text::digits::<I, X>(16).to_slice().map(|s: &[u8]| s.len() as u8).padded().boxed(),
        _ => text::ascii::keyword::<I, _, X>(b"ab" as &[u8]).map(|s: &[u8]| s.len() as u8).boxed(),
    };
    let r = p.parse(x);
    contract(&r);
    cover!("cover:accept", r.has_output());
    cover!("cover:reject", !r.has_output());
    let _ = Tr::unit();
}

crate::harnesses! {
    c20_matrix_emptyerr [6] = c20_matrix_emptyerr_body;
    c20_matrix_cheap [6] = c20_matrix_cheap_body;
    c20_str_arbitrary [7] = c20_str_arbitrary_body;
    c20_text_bytes [6] = c20_text_bytes_body;
}
