//! C20 — totality: no panic / overflow / out-of-bounds / unbounded loop for any input; failure always surfaces
//! through the error list. No oracle here: Kani's built-in checks on the REAL code (panic, `unwrap` on None,
//! arithmetic overflow, bounds, pointer validity) plus the unwinding assertions (no loop can run longer than the
//! bound for any input of that size) are the property; `contract` ties failure to the error list.
//!
//! @default harness props=C20:Q n=3 err=EmptyErr/Cheap timeout=900
//! @default shape W(P): the wrapper W is fixed per harness (name: c20_m_<error type>_<wrapper>), P in {just seq, custom, try_map, filter, capped collect_exactly, select} is symbolic (boxed); parse() and check()
//! @default symbolic t0, t1: u8; inner parser kind 0..=5; input 3 bytes
//! @default thorough-only c20_m_cheap_recover_stacked
//! @default aims every failing parser must leave a pending error for the "can't fail" unwraps of map_err / recover_with; zero-sized-error fast paths of add_alt / add_alt_err
use crate::obs::Tr;
use crate::sym::{Inp, Src};
use crate::{check, contract, cover};
use chumsky::error::{Cheap, EmptyErr};
use chumsky::extra;
use chumsky::prelude::*;

/// the wrapper matrix: {map_err, map_err_with_state, recover_with(via_parser | skip_until | skip_then_retry_until),
/// labelled, memoized, or_not, repeated} x {failing just, failing custom, failing try_map, failing filter,
/// failing select} — the "can't fail" unwraps are reachable only through these stacks.
/// One harness per (error type, wrapper); the inner parser kind is symbolic (boxed).
macro_rules! matrix {
    ($E:ty, $s:expr, $mk_user:expr, |$inner:ident, $t:ident| $wrap:expr) => {{
        type X<'a> = extra::Err<$E>;
        type I<'a> = &'a [u8];
        let $t = [$s.u8(), $s.u8()];
        let inner_k = $s.upto(5);
        let inp = Inp::<3>::any($s);
        let x = inp.get();
        let mk = $mk_user;
        let t = $t;
        // ---- a failing (or succeeding) inner parser of each kind, boxed to one type
        let $inner = match inner_k {
            0 => just::<u8, I, X>(t[0]).then(just(t[1])).map(|(a, _)| a).boxed(),
            1 => custom::<_, I, u8, X>(move |inp| {
                let before = inp.cursor();
                match (inp.next(), inp.next()) {
                    (Some(a), Some(b)) if b == t[1] => Ok(a),
                    _ => Err(mk(inp.span_since(&before))),
                }
            })
            .boxed(),
            2 => any::<I, X>()
                .try_map(move |a: u8, span| if a > t[0] { Ok(a) } else { Err(mk(span)) })
                .boxed(),
            3 => any::<I, X>().then(any()).map(|(a, _)| a).filter(move |a: &u8| *a > t[0]).boxed(),
            // a repetition that stops at its own cap before the fixed-size container is full (fails without any item failing)
            4 => any::<I, X>().repeated().at_most((t[0] & 3) as usize).collect_exactly::<[u8; 2]>().map(|a: [u8; 2]| a[0]).boxed(),
            _ => chumsky::primitive::select::<_, I, u8, X>(move |a: u8, _| if a > t[0] { Some(a) } else { None }).boxed(),
        };
        let p = $wrap;
        let r = p.parse(x);
        contract(&r);
        let rc = p.check(x);
        contract(&rc);
        check!("C20:check-and-parse-agree-on-output", r.has_output() == rc.has_output());
        cover!("cover:accept", r.has_output() && !r.has_errors());
        cover!("cover:reject", !r.has_output());
    }};
}

macro_rules! matrix_fns {
    ($( $name:ident, $E:ty, $mk:expr, $wdesc:literal, |$inner:ident, $t:ident| $wrap:expr ;)*) => {
        $(
            /// @harness props=C20:Q n=3 timeout=900
            /// @shape W(P) with W fixed (see the function name) and P in {just seq, custom, try_map, filter, capped collect_exactly, select} symbolic (boxed); parse() and check()
            /// @symbolic t0, t1: u8; inner kind 0..=5; input 3 bytes
            /// @aims every failing parser must leave a pending error for the "can't fail" unwraps of the wrapper; zero-sized-error fast paths of add_alt / add_alt_err
            pub fn $name<S: Src>(s: &mut S) {
                let _ = $wdesc;
                matrix!($E, s, $mk, |$inner, $t| $wrap);
            }
        )*
    };
}

matrix_fns! {
    c20_m_empty_map_err_body, EmptyErr, |_span: SimpleSpan| EmptyErr::default(), "map_err", |inner, t| inner.map_err(|e| e);
    c20_m_empty_map_err_state_body, EmptyErr, |_span: SimpleSpan| EmptyErr::default(), "map_err_with_state", |inner, t| inner.map_err_with_state(|e, _sp, _st| e);
    c20_m_empty_via_body, EmptyErr, |_span: SimpleSpan| EmptyErr::default(), "recover_with(via_parser)", |inner, t| inner.recover_with(via_parser(any().or_not().map(|o: Option<u8>| o.unwrap_or(0))));
    c20_m_empty_skip_until_body, EmptyErr, |_span: SimpleSpan| EmptyErr::default(), "recover_with(skip_until)", |inner, t| inner.recover_with(skip_until(any().ignored(), just(t[1]).ignored(), || 0u8));
    c20_m_empty_skip_retry_body, EmptyErr, |_span: SimpleSpan| EmptyErr::default(), "recover_with(skip_then_retry_until)", |inner, t| inner.recover_with(skip_then_retry_until(any().ignored(), just(t[1]).ignored()));
    c20_m_empty_labelled_body, EmptyErr, |_span: SimpleSpan| EmptyErr::default(), "labelled + map_err", |inner, t| inner.labelled("x").map_err(|e| e);
    c20_m_empty_memoized_body, EmptyErr, |_span: SimpleSpan| EmptyErr::default(), "memoized + map_err", |inner, t| inner.memoized().map_err(|e| e);
    c20_m_empty_repeated_body, EmptyErr, |_span: SimpleSpan| EmptyErr::default(), "repeated.at_least(1) + map_err", |inner, t| inner.repeated().at_least(1).collect::<Vec<u8>>().map_err(|e| e);
    c20_m_cheap_map_err_body, Cheap, |span: SimpleSpan| Cheap::new(span), "map_err", |inner, t| inner.map_err(|e| e);
    c20_m_cheap_via_body, Cheap, |span: SimpleSpan| Cheap::new(span), "recover_with(via_parser)", |inner, t| inner.recover_with(via_parser(any().or_not().map(|o: Option<u8>| o.unwrap_or(0))));
    c20_m_cheap_skip_retry_body, Cheap, |span: SimpleSpan| Cheap::new(span), "recover_with(skip_then_retry_until)", |inner, t| inner.recover_with(skip_then_retry_until(any().ignored(), just(t[1]).ignored()));
    c20_m_cheap_memoized_body, Cheap, |span: SimpleSpan| Cheap::new(span), "memoized + recover_with", |inner, t| inner.memoized().recover_with(via_parser(any().or_not().map(|o: Option<u8>| o.unwrap_or(0))));
    c20_m_empty_skip_retry_stacked_body, EmptyErr, |_span: SimpleSpan| EmptyErr::default(), "recover_with(skip_then_retry_until) + map_err", |inner, t| inner.recover_with(skip_then_retry_until(any().ignored(), just(t[1]).ignored())).map_err(|e| e);
    c20_m_cheap_recover_stacked_body, Cheap, |span: SimpleSpan| Cheap::new(span), "recover_with(skip_then_retry_until) + recover_with(skip_until) + map_err", |inner, t| inner.recover_with(skip_then_retry_until(any().ignored(), just(t[1]).ignored())).recover_with(skip_until(any().ignored(), just(t[0]).ignored(), || 0u8)).map_err(|e| e);
    c20_m_cheap_via_stacked_body, Cheap, |span: SimpleSpan| Cheap::new(span), "recover_with(via_parser(failing)) + map_err", |inner, t| inner.recover_with(via_parser(just(t[1]).then(just(t[0])).map(|(a, _)| a))).map_err(|e| e);
}

/// @harness props=C20:Q n=2 err=BitErr timeout=900 finding=F14
/// @shape one_of(t0..)   [RangeFrom<u8>]   with an error type that enumerates the expected tokens (BitErr, like Rich)
/// @symbolic t0: u8 in 250..=255; input 2 bytes
/// @assume t0 >= 250 (keeps the enumeration of the expected tokens within the unwinding bound)
/// @aims building the error of a failing one_of over an unbounded range must terminate without overflow
pub fn c20_one_of_range_from_body<S: Src>(s: &mut S) {
    use crate::errs::BitErr;
    let t0 = s.u8();
    crate::sym::assume(t0 >= 250);
    let inp = Inp::<2>::any(s);
    let x = inp.get();
    type X<'a> = extra::Err<BitErr>;
    type I<'a> = &'a [u8];
    let p = one_of::<_, I, X>(t0..).or_not().then(any::<I, X>().repeated().count());
    let r = p.parse(x);
    contract(&r);
    if let Some((first, rest)) = r.output() {
        check!("C20:one_of-range-from-matches-its-range", first.is_some() == (!x.is_empty() && x[0] >= t0));
        check!("C20:one_of-range-from-remainder", *rest + if first.is_some() { 1 } else { 0 } == x.len());
    }
    cover!("cover:accept", r.has_output());
    cover!("cover:mismatch", r.has_output() && !x.is_empty() && x[0] < t0);
}


/// @harness props=C20:Q n=2 err=Cheap timeout=900 input=&str_of_up_to_2_FULLY_SYMBOLIC_chars_(any_Unicode_scalar_value)
/// @shape (any then 'é'?).to_slice() then any*.to_slice() on a &str made of up to 2 arbitrary Unicode scalar values
/// @symbolic 2 x u32 constrained to valid scalar values; number of characters 0..=2
/// @aims unchecked character decoding (&str next_maybe) never reads mid-character; every slice lies on character boundaries
pub fn c20_str_arbitrary_body<S: Src>(s: &mut S) {
    let mut buf = [0u8; 8];
    let mut len = 0usize;
    let n = s.upto(2) as usize;
    let mut i = 0;
    while i < 2 {
        let v = ((s.u8() as u32) << 16 | (s.u8() as u32) << 8 | s.u8() as u32) & 0x1f_ffff;
        let c = match char::from_u32(v) {
            Some(c) => c,
            None => {
                crate::sym::assume(false);
                'a'
            }
        };
        if i < n {
            len += c.encode_utf8(&mut buf[len..]).len();
        }
        i += 1;
    }
    let st = unsafe { core::str::from_utf8_unchecked(&buf[..len]) };
    type X<'a> = extra::Err<Cheap>;
    let p = any::<&str, X>()
        .then(just::<char, &str, X>('é').or_not())
        .to_slice()
        .then(any::<&str, X>().repeated().to_slice());
    let r = p.parse(st);
    contract(&r);
    if let Some((a, rest)) = r.output() {
        check!("C20:slices-cover-the-input", a.len() + rest.len() == st.len());
        check!("C20:slice-on-char-boundary", st.is_char_boundary(a.len()));
    }
    cover!("cover:multibyte", r.has_output() && st.len() >= 5);
    cover!("cover:reject", !r.has_output());
}

/// @harness props=C20:T n=3 err=Cheap timeout=1200
/// @shape text::ident / int(10) / whitespace / newline / keyword("ab") each over arbitrary bytes, chosen symbolically, padded()
/// @symbolic which 0..=4; bytes arbitrary
/// @aims text parsers on arbitrary bytes never panic
pub fn c20_text_bytes_body<S: Src>(s: &mut S) {
    let which = s.upto(4);
    let inp = Inp::<3>::any(s);
    let x = inp.get();
    type X<'a> = extra::Err<Cheap>;
    type I<'a> = &'a [u8];
    let p = match which {
        0 => text::ascii::ident::<I, X>().map(|s: &[u8]| s.len() as u8).boxed(),
        1 => text::int::<I, X>(10).map(|s: &[u8]| s.len() as u8).boxed(),
        2 => text::whitespace::<I, X>().to_slice().map(|s: &[u8]| s.len() as u8).boxed(),
        3 => text::digits::<I, X>(16).to_slice().map(|s: &[u8]| s.len() as u8).padded().boxed(),
        _ => text::ascii::keyword::<I, _, X>(b"ab" as &[u8]).map(|s: &[u8]| s.len() as u8).boxed(),
    };
    let r = p.parse(x);
    contract(&r);
    cover!("cover:accept", r.has_output());
    cover!("cover:reject", !r.has_output());
    let _ = Tr::unit();
}

crate::harnesses! {
    c20_m_empty_map_err [6] = c20_m_empty_map_err_body;
    c20_m_empty_map_err_state [6] = c20_m_empty_map_err_state_body;
    c20_m_empty_via [6] = c20_m_empty_via_body;
    c20_m_empty_skip_until [6] = c20_m_empty_skip_until_body;
    c20_m_empty_skip_retry [6] = c20_m_empty_skip_retry_body;
    c20_m_empty_labelled [6] = c20_m_empty_labelled_body;
    c20_m_empty_memoized [8] = c20_m_empty_memoized_body;
    c20_m_empty_repeated [6] = c20_m_empty_repeated_body;
    c20_m_cheap_map_err [6] = c20_m_cheap_map_err_body;
    c20_m_cheap_via [6] = c20_m_cheap_via_body;
    c20_m_cheap_skip_retry [6] = c20_m_cheap_skip_retry_body;
    c20_m_cheap_memoized [8] = c20_m_cheap_memoized_body;
    c20_m_empty_skip_retry_stacked [6] = c20_m_empty_skip_retry_stacked_body;
    c20_m_cheap_recover_stacked [6] = c20_m_cheap_recover_stacked_body;
    c20_m_cheap_via_stacked [6] = c20_m_cheap_via_stacked_body;
    c20_one_of_range_from [9] = c20_one_of_range_from_body;
    c20_str_arbitrary [6] = c20_str_arbitrary_body;
    c20_text_bytes [6] = c20_text_bytes_body;
}
