//! C16 — nested inputs: `a.nested_in(b)` runs `a` on exactly the inner input produced by `b`, requires it to be
//! consumed completely, advances the outer input by what `b` consumed, and reports inner errors outside.
use crate::errs::{MkErr, TagErr};
use crate::sym::Src;
use crate::{check, contract, cover};
use chumsky::extra;
use chumsky::prelude::*;

#[derive(Clone, Copy, PartialEq, Debug)]
pub enum Tok<'a> {
    L(u8),
    G(&'a [Tok<'a>]),
}
type TI<'a> = &'a [Tok<'a>];
type XT<'a> = extra::Err<TagErr>;

fn l<'a>(c: u8) -> impl Parser<'a, TI<'a>, u8, XT<'a>> + Clone {
    select_ref! { Tok::L(v) if *v == c => *v }
}
fn any_l<'a>() -> impl Parser<'a, TI<'a>, u8, XT<'a>> + Clone {
    select_ref! { Tok::L(v) => *v }
}
fn group<'a>() -> impl Parser<'a, TI<'a>, TI<'a>, XT<'a>> + Clone {
    select_ref! { Tok::G(g) => *g }
}

/// symbolic inner sequence: up to 2 leaf tokens
fn inner_any<'a, S: Src>(s: &mut S, buf: &'a mut [Tok<'a>; 2]) -> &'a [Tok<'a>] {
    buf[0] = Tok::L(s.u8());
    buf[1] = Tok::L(s.u8());
    let n = s.upto(2) as usize;
    &buf[..n]
}

/// @harness props=C16:Q,C20:T n=2 err=TagErr timeout=900 input=token_tree:_up_to_2_outer_tokens,_each_a_leaf_or_a_group_of_up_to_2_leaves
/// @shape ( A.nested_in(group) | leaf ).repeated()   A = t0.validate(emit) then t1?        vs direct oracle
/// @symbolic t0, t1: u8; per outer token: leaf/group, value, inner length 0..=2 and inner values
/// @aims a runs on exactly the inner tokens and must consume them all; outer advances by one token; emissions inside surface outside; a failed nested parse is backtracked over
pub fn c16_nested_body<S: Src>(s: &mut S) {
    let t = [s.u8(), s.u8()];
    let mut b0 = [Tok::L(0); 2];
    let mut b1 = [Tok::L(0); 2];
    let g0 = inner_any(s, &mut b0);
    let g1 = inner_any(s, &mut b1);
    let k0 = s.bool();
    let k1 = s.bool();
    let v0 = s.u8();
    let v1 = s.u8();
    let outer_buf = [if k0 { Tok::G(g0) } else { Tok::L(v0) }, if k1 { Tok::G(g1) } else { Tok::L(v1) }];
    let n = s.upto(2) as usize;
    let outer = &outer_buf[..n];

    let a = l(t[0])
        .validate(|v, e, em| {
            em.emit(TagErr::emitted(1, e.span()));
            v
        })
        .then(l(t[1]).or_not())
        .map(|(_, o): (u8, Option<u8>)| if o.is_some() { 2u8 } else { 1u8 });
    let nested = a.nested_in(group());
    let p = nested.or(any_l().to(0u8)).repeated().collect::<Vec<u8>>();
    let r = p.parse(outer);
    contract(&r);

    // oracle
    let fits = |g: &[Tok]| -> Option<u8> {
        if g.len() == 1 && g[0] == Tok::L(t[0]) {
            Some(1)
        } else if g.len() == 2 && g[0] == Tok::L(t[0]) && g[1] == Tok::L(t[1]) {
            Some(2)
        } else {
            None
        }
    };
    let mut want_ok = true;
    let mut groups = 0usize;
    let mut want = [0u8; 2];
    let mut i = 0;
    while i < n {
        match outer[i] {
            Tok::L(_) => want[i] = 0,
            Tok::G(g) => match fits(g) {
                Some(k) => {
                    want[i] = k;
                    groups += 1;
                }
                None => want_ok = false,
            },
        }
        i += 1;
    }
    let (out, errs) = r.into_output_errors();
    check!("C16:accepts-iff-every-group-matches-completely", out.is_some() == want_ok);
    if let Some(v) = &out {
        check!("C16:outer-advances-one-token-per-group", v.len() == n);
        let mut j = 0;
        while j < v.len() && j < 2 {
            check!("C16:inner-parser-sees-exactly-the-inner-tokens", v[j] == want[j]);
            j += 1;
        }
        check!("C16:inner-emissions-surface-in-outer-result", errs.len() == groups);
    } else {
        check!("C16:inner-failure-surfaces-as-error", !errs.is_empty());
    }
    cover!("cover:accept-two-groups", out.is_some() && groups == 2);
    cover!("cover:reject-inner-trailing-token", out.is_none() && n >= 1 && k0 && g0.len() == 2 && g0[0] == Tok::L(t[0]));
    cover!("cover:leaf-after-group", out.is_some() && n == 2 && k0 && !k1);
}

/// @harness props=C16:Q,C20:T n=2 err=TagErr timeout=900 input=token_tree
/// @shape ( A.nested_in(group) then leaf(t2) ) | ( group then leaf )        [the nested parse SUCCEEDS, the follower fails: backtrack over it]
/// @symbolic t0, t2: u8; inner length and values
/// @aims the outer grammar backtracks over a nested parse like over any other parser; emissions of the abandoned nested parse vanish
pub fn c16_backtrack_body<S: Src>(s: &mut S) {
    let t = [s.u8(), s.u8()];
    let mut b0 = [Tok::L(0); 2];
    let g0 = inner_any(s, &mut b0);
    let v1 = s.u8();
    let outer_buf = [Tok::G(g0), Tok::L(v1)];
    let n = 1 + s.upto(1) as usize;
    let outer = &outer_buf[..n];
    let a = l(t[0]).validate(|v, e, em| {
        em.emit(TagErr::emitted(1, e.span()));
        v
    });
    let alt1 = a.nested_in(group()).then_ignore(l(t[1])).to(1u8);
    let alt2 = group().then_ignore(any_l()).to(2u8);
    let r = alt1.or(alt2).parse(outer);
    contract(&r);
    let inner_ok = g0.len() == 1 && g0[0] == Tok::L(t[0]);
    let (out, errs) = r.into_output_errors();
    if n == 2 {
        check!("C16:accepts", out.is_some());
        if inner_ok && v1 == t[1] {
            check!("C16:first-alternative-taken", out == Some(1) && errs.len() == 1);
        } else {
            check!("C16:backtracks-over-nested-parse", out == Some(2));
            check!("C16:abandoned-nested-emission-vanishes", errs.is_empty());
        }
    } else {
        check!("C16:rejects-missing-follower", out.is_none() && !errs.is_empty());
    }
    cover!("cover:backtracked-after-successful-nested", n == 2 && inner_ok && v1 != t[1]);
    cover!("cover:first-alternative", out == Some(1));
}

/// @harness props=C16:Q,C20:T n=3 err=TagErr timeout=900 input=token_tree:_group_then_up_to_2_leaves
/// @shape ( group any t2 ) | ( A.nested_in(group) then leaf(t1) )     A = t0 (succeeds leaving nothing pending)       and, without any choice:   V.nested_in(group) then leaf?   V = t0.validate(emit)
/// @symbolic t0..t2: u8; inner length and values; outer leaves; which of the two grammars
/// @aims (1) a nested parse that SUCCEEDS must not disturb the error an earlier alternative left pending further ahead; (2) with no backtracking point outside, an emission made inside a nested parse that then FAILS (unconsumed inner tail) still surfaces next to the failure
pub fn c16_errors_body<S: Src>(s: &mut S) {
    let t = [s.u8(), s.u8(), s.u8()];
    let which = s.bool();
    let mut b0 = [Tok::L(0); 2];
    let g0 = inner_any(s, &mut b0);
    let (v1, v2) = (s.u8(), s.u8());
    let outer_buf = [Tok::G(g0), Tok::L(v1), Tok::L(v2)];
    let n = 1 + s.upto(2) as usize;
    let outer = &outer_buf[..n];
    let inner_ok = g0.len() == 1 && g0[0] == Tok::L(t[0]);
    if which {
        let alt1 = group().then(any_l()).then(l(t[2])).to(1u8);
        let alt2 = l(t[0]).nested_in(group()).then_ignore(l(t[1])).to(2u8);
        let r = alt1.or(alt2).parse(outer);
        contract(&r);
        let (out, errs) = r.into_output_errors();
        let first = n == 3 && v2 == t[2];
        let second = inner_ok && n == 2 && v1 == t[1];
        check!("C16:acceptance", out.is_some() == (first || second));
        if out.is_none() && n >= 2 && inner_ok && v1 != t[1] {
            // alt1 failed at outer position 2 (wrong or missing third token), alt2's nested parse succeeded and its
            // follower failed at position 1: the furthest failure is alt1's
            if let Some(e) = errs.last() {
                check!("C16:nested-success-keeps-earlier-further-error", e.start() == 2);
            }
        }
        cover!("cover:both-fail-nested-ok", out.is_none() && n >= 2 && inner_ok && v1 != t[1]);
        cover!("cover:second-alternative", out == Some(2));
    } else {
        let v = l(t[0]).validate(|v, e, em| {
            em.emit(TagErr::emitted(1, e.span()));
            v
        });
        let r = v.nested_in(group()).then(any_l().or_not()).parse(outer);
        contract(&r);
        let (out, errs) = r.into_output_errors();
        check!("C16:acceptance", out.is_some() == (inner_ok && n <= 2));
        let emitted_then_failed_inside = g0.len() == 2 && g0[0] == Tok::L(t[0]);
        if emitted_then_failed_inside {
            check!("C16:inner-emission-surfaces-with-the-inner-failure", out.is_none() && errs.len() == 2 && errs[0].id() == 1);
        }
        if inner_ok && n <= 2 {
            check!("C16:inner-emission-surfaces", errs.len() == 1 && errs[0].id() == 1);
        }
        cover!("cover:emitted-then-inner-tail", emitted_then_failed_inside);
        cover!("cover:accept", out.is_some());
    }
}

/// @harness props=C16:Q,C20:T n=2 err=TagErr timeout=900 input=token_tree_of_depth_3:_G(_G(leaf?)_leaf?_)
/// @shape ( t0.nested_in(group) then leaf? ).nested_in(group)        [nested_in inside nested_in]   vs direct oracle
/// @symbolic t0: u8; innermost leaf value and presence; middle level: 0..=2 tokens
/// @aims two levels of input swapping: each level must be consumed completely, each advances its parent by one token
pub fn c16_depth3_body<S: Src>(s: &mut S) {
    let t0 = s.u8();
    let (v, w) = (s.u8(), s.u8());
    let leaf_buf = [Tok::L(v)];
    let n0 = s.upto(1) as usize;
    let inner = &leaf_buf[..n0];
    let mid_buf = [Tok::G(inner), Tok::L(w)];
    let n1 = s.upto(2) as usize;
    let mid = &mid_buf[..n1];
    let outer_buf = [Tok::G(mid)];
    let outer = &outer_buf[..];
    let p = l(t0).nested_in(group()).then(any_l().or_not()).nested_in(group());
    let r = p.parse(outer);
    contract(&r);
    let want = n0 == 1 && v == t0 && n1 >= 1;
    check!("C16:acceptance", r.has_output() == want);
    if let Some((a, b)) = r.output() {
        check!("C16:inner-sees-exactly-the-inner-tokens", *a == v && *b == if n1 == 2 { Some(w) } else { None });
    }
    cover!("cover:accept-with-follower", r.has_output() && n1 == 2);
    cover!("cover:reject-empty-innermost", !r.has_output() && n0 == 0 && n1 >= 1);
}

/// @harness props=C16:Q,C20:T n=2 err=TagErr timeout=900 input=token_tree_of_depth_4:_G(_G(_G(leaf?)_leaf?_)_leaf?_)
/// @shape ( ( V.nested_in(group) then leaf? ).nested_in(group) then leaf? ).nested_in(group)      V = t0.validate(emit)      vs direct oracle
/// @symbolic t0: u8; leaf values; 0..=1 / 0..=2 / 0..=2 tokens per level
/// @aims three levels of input swapping (tree depth 4); an emission made at the innermost level surfaces in the outermost result
pub fn c16_depth4_body<S: Src>(s: &mut S) {
    let t0 = s.u8();
    let (v, w, z) = (s.u8(), s.u8(), s.u8());
    let leaf_buf = [Tok::L(v)];
    let n0 = s.upto(1) as usize;
    let l3 = &leaf_buf[..n0];
    let b2 = [Tok::G(l3), Tok::L(w)];
    let n1 = s.upto(2) as usize;
    let l2 = &b2[..n1];
    let b1 = [Tok::G(l2), Tok::L(z)];
    let n2 = s.upto(2) as usize;
    let l1 = &b1[..n2];
    let outer_buf = [Tok::G(l1)];
    let outer = &outer_buf[..];
    let vv = l(t0).validate(|v, e, em| {
        em.emit(TagErr::emitted(1, e.span()));
        v
    });
    let p = vv.nested_in(group()).then(any_l().or_not()).nested_in(group()).then(any_l().or_not()).nested_in(group());
    let r = p.parse(outer);
    contract(&r);
    let want = n0 == 1 && v == t0 && n1 >= 1 && n2 >= 1;
    check!("C16:acceptance", r.has_output() == want);
    let (out, errs) = r.into_output_errors();
    if let Some(((a, b), c)) = out {
        check!("C16:inner-sees-exactly-the-inner-tokens", a == v && b == if n1 == 2 { Some(w) } else { None } && c == if n2 == 2 { Some(z) } else { None });
        check!("C16:inner-emission-surfaces", errs.len() == 1 && errs[0].id() == 1);
    }
    cover!("cover:accept-full", out.is_some() && n1 == 2 && n2 == 2);
    cover!("cover:reject", out.is_none());
}

crate::harnesses! {
    c16_depth4 [6] = c16_depth4_body;
    c16_depth3 [6] = c16_depth3_body;
    c16_errors [6] = c16_errors_body;
    c16_nested [6] = c16_nested_body;
    c16_backtrack [6] = c16_backtrack_body;
}
