//! C17 — labels and map_err change how a failure is described, never whether or where.
//! Error type: `BitErr` (expected set = bit mask, label bits, context counter, marker set by map_err closures).
use crate::errs::{BitErr, Lbl, MkErr, X_LABEL0};
use crate::obs::{same, Tr};
use crate::prims::pb::*;
use crate::refsem::xbit;
use crate::sym::{Inp, Src};
use crate::{check, contract, cover};

fn lab<'a>(a: impl Parser<'a, I<'a>, Tr, X<'a>> + Clone, ctx: bool) -> impl Parser<'a, I<'a>, Tr, X<'a>> + Clone {
    let l = a.labelled(Lbl(1));
    if ctx {
        l.as_context()
    } else {
        l
    }
}
fn merr<'a>(a: impl Parser<'a, I<'a>, Tr, X<'a>> + Clone) -> impl Parser<'a, I<'a>, Tr, X<'a>> + Clone {
    a.map_err(|e: BitErr| e.with_marker(1))
}
fn merr_state<'a>(a: impl Parser<'a, I<'a>, Tr, X<'a>> + Clone) -> impl Parser<'a, I<'a>, Tr, X<'a>> + Clone {
    a.map_err_with_state(|e: BitErr, _span, _st| e.with_marker(1))
}

const LABEL1: u32 = X_LABEL0 << 1;

/// decorated vs undecorated: acceptance, output, number of errors, span of the (single) error
macro_rules! differential {
    ($p:expr, $q:expr, $x:expr) => {{
        let r1 = $p.parse($x);
        let r2 = $q.parse($x);
        contract(&r1);
        contract(&r2);
        let (o1, e1) = r1.into_output_errors();
        let (o2, e2) = r2.into_output_errors();
        check!("C17:decoration-changes-acceptance", o1.is_some() == o2.is_some());
        check!("C17:decoration-changes-output", same(&o1, &o2));
        check!("C17:decoration-changes-error-count", e1.len() == e2.len());
        let (l1, l2) = (e1.last().copied(), e2.last().copied());
        if let (Some(a), Some(b)) = (l1, l2) {
            check!("C17:decoration-changes-error-span", a.start() == b.start() && a.end() == b.end());
            check!("C17:decoration-changes-found", a.found() == b.found());
        }
        cover!("cover:accept", o1.is_some());
        cover!("cover:reject", o1.is_none());
        (o1, l1, l2)
    }};
}

/// @harness props=C17:Q,C20:T n=3 err=BitErr
/// @shape L(t0 t1) | (t2 t3)   vs   (t0 t1) | (t2 t3)        L = labelled(1) / labelled(1).as_context() (symbolic choice)
/// @symbolic t0..t3: u8, as_context: bool
/// @aims label replaces the expectations only when the labelled parser fails at its FIRST token; further in the inner set is kept and as_context adds (label, start..failure)
pub fn c17_label_choice_body<S: Src>(s: &mut S) {
    let t = [s.u8(), s.u8(), s.u8(), s.u8()];
    let ctx = s.bool();
    let inp = Inp::<3>::any(s);
    let x = inp.get();
    let p = or(lab(then(j(t[0]), j(t[1])), ctx), then(j(t[2]), j(t[3])));
    let q = or(then(j(t[0]), j(t[1])), then(j(t[2]), j(t[3])));
    let (o1, l1, _l2) = differential!(p, q, x);
    if let (None, Some(e)) = (o1, l1) {
        let n = x.len();
        let a0 = n > 0 && x[0] == t[0];
        let a1 = n > 1 && x[1] == t[1];
        let b0 = n > 0 && x[0] == t[2];
        let b1 = n > 1 && x[1] == t[3];
        // where each alternative fails (None = it matched its two tokens)
        let fa = if !a0 { Some(0) } else if !a1 { Some(1) } else { None };
        let fb = if !b0 { Some(0) } else if !b1 { Some(1) } else { None };
        if fa == Some(0) && fb == Some(0) {
            // both fail at the very first token: label in place of the labelled parser's own expectation
            check!("C17:label-replaces-first-token-expectations", e.exp() == LABEL1 | xbit(t[2]));
            check!("C17:no-context-at-first-token", e.ctx_n() == 0);
        }
        if fa == Some(0) && fb == Some(1) {
            check!("C17:label-not-at-furthest", e.exp() == xbit(t[3]) && e.start() == 1);
        }
        if fa == Some(1) && fb == Some(0) {
            // failed further in: inner expectations kept, no label in the expected set
            check!("C17:inner-expectations-kept", e.exp() == xbit(t[1]) && e.start() == 1);
            check!(
                "C17:as_context-adds-label-and-span",
                if ctx { e.ctx_n() == 1 && e.ctx_label() == 1 && e.ctx_start() == 0 && e.ctx_end() == 1 } else { e.ctx_n() == 0 }
            );
        }
        if fa == Some(1) && fb == Some(1) {
            check!("C17:inner-expectations-merged", e.exp() == xbit(t[1]) | xbit(t[3]) && e.start() == 1);
        }
        cover!("cover:first-token-failure", fa == Some(0) && fb == Some(0));
        cover!("cover:deep-failure-with-context", fa == Some(1) && fb == Some(0) && ctx);
    }
}

/// @harness props=C17:Q,C20:T n=3 err=BitErr
/// @shape (t0 t1)? then L(t2 t3)    vs   (t0 t1)? then (t2 t3)       [an EARLIER optional leaves a pending error at position 1]
/// @symbolic t0..t3: u8, as_context: bool
/// @aims the label logic shelters and re-merges the pending primary error of an earlier alternative at the same / a later position
pub fn c17_label_pending_body<S: Src>(s: &mut S) {
    let t = [s.u8(), s.u8(), s.u8(), s.u8()];
    let ctx = s.bool();
    let inp = Inp::<3>::any(s);
    let x = inp.get();
    let p = then(ornot(then(j(t[0]), j(t[1]))), lab(then(j(t[2]), j(t[3])), ctx));
    let q = then(ornot(then(j(t[0]), j(t[1]))), then(j(t[2]), j(t[3])));
    let (o1, l1, _l2) = differential!(p, q, x);
    if let (None, Some(e)) = (o1, l1) {
        let n = x.len();
        let a0 = n > 0 && x[0] == t[0];
        let a1 = n > 1 && x[1] == t[1];
        if a0 && !a1 {
            // the optional failed at 1 and was abandoned; the labelled parser starts at 0
            let b0 = x[0] == t[2];
            let b1 = n > 1 && x[1] == t[3];
            if !b0 {
                // labelled fails at its first token (0) but the pending error at 1 is further: it stays primary
                check!("C17:earlier-further-error-stays-primary", e.start() == 1 && e.exp() == xbit(t[1]));
            } else if !b1 {
                // both at position 1: union of the two inner expectations, no label (failure is not at the first token)
                check!("C17:pending-error-merged-with-inner", e.start() == 1 && e.exp() == xbit(t[1]) | xbit(t[3]));
            }
            cover!("cover:pending-further", !b0);
            cover!("cover:pending-same-position", b0 && !b1);
        }
    }
}

/// @harness props=C17:Q,C20:T n=3 err=BitErr
/// @shape (t0 M(t1)) | (t2 t3)   vs undecorated       M = map_err(set marker) / map_err_with_state (symbolic choice)
/// @symbolic t0..t3: u8, with_state: bool
/// @aims map_err's function is applied to exactly the errors produced by failures of its parser
pub fn c17_map_err_body<S: Src>(s: &mut S) {
    let t = [s.u8(), s.u8(), s.u8(), s.u8()];
    let ws = s.bool();
    let inp = Inp::<3>::any(s);
    let x = inp.get();
    let q = or(then(j(t[0]), j(t[1])), then(j(t[2]), j(t[3])));
    let (o1, l1) = if ws {
        let p = or(then(j(t[0]), merr_state(j(t[1]))), then(j(t[2]), j(t[3])));
        let (o1, l1, _) = differential!(p, q, x);
        (o1, l1)
    } else {
        let p = or(then(j(t[0]), merr(j(t[1]))), then(j(t[2]), j(t[3])));
        let (o1, l1, _) = differential!(p, q, x);
        (o1, l1)
    };
    if let (None, Some(e)) = (o1, l1) {
        let n = x.len();
        let a0 = n > 0 && x[0] == t[0];
        let a1 = n > 1 && x[1] == t[1];
        // the wrapped parser runs iff a0, and fails (at position 1) iff !a1
        let wrapped_failed = a0 && !a1;
        if wrapped_failed {
            // its failure is at 1, the furthest possible failure of this grammar before the implicit end()
            check!("C17:map_err-applied-to-own-failure", e.start() != 1 || e.marker() == 1);
        } else {
            check!("C17:map_err-applied-to-foreign-error", e.marker() == 0);
        }
        cover!("cover:mapped", wrapped_failed && e.marker() == 1);
        cover!("cover:not-mapped", !wrapped_failed);
    }
}

/// @harness props=C17:Q,C06:T,C20:T n=3 err=BitErr
/// @shape (t0 t1)? then L(t2) then t3    vs   (t0 t1)? then t2 then t3       [the labelled parser SUCCEEDS and leaves no pending error of its own]
/// @symbolic t0..t3: u8, as_context: bool
/// @aims a label on a parser that succeeds must not disturb the error an earlier, abandoned attempt left pending (same position: expectations merged; further ahead: it stays primary)
pub fn c17_label_success_body<S: Src>(s: &mut S) {
    let t = [s.u8(), s.u8(), s.u8(), s.u8()];
    let ctx = s.bool();
    let inp = Inp::<3>::any(s);
    let x = inp.get();
    let p = then(ornot(then(j(t[0]), j(t[1]))), then(lab(j(t[2]), ctx), j(t[3])));
    let q = then(ornot(then(j(t[0]), j(t[1]))), then(j(t[2]), j(t[3])));
    let (o1, l1, l2) = differential!(p, q, x);
    if let (None, Some(a), Some(b)) = (o1, l1, l2) {
        // the label stands in for the labelled parser's own expectation {t2} where it failed at its first token;
        // everything else in the expected set must be exactly what the undecorated grammar reports
        let norm = (a.exp() & !LABEL1) | if a.exp() & LABEL1 != 0 { xbit(t[2]) } else { 0 };
        check!("C17:label-changes-foreign-expectations", norm == b.exp());
        let n = x.len();
        cover!("cover:pending-then-labelled-success", n >= 2 && x[0] == t[0] && x[1] != t[1] && x[0] == t[2] && x[1] != t[3]);
    }
}

/// @harness props=C17:Q,C06:T,C20:T n=3 err=BitErr
/// @shape M(t0 t1) | (t2 t3)   vs undecorated       M = map_err(set marker) / map_err_with_state around a TWO-token parser (symbolic choice)
/// @symbolic t0..t3: u8, with_state: bool
/// @aims the mapped error stays at the position where the wrapped parser failed (not at the start of the wrapped parser): same span, same expectations as undecorated
pub fn c17_map_err_deep_body<S: Src>(s: &mut S) {
    let t = [s.u8(), s.u8(), s.u8(), s.u8()];
    let ws = s.bool();
    let inp = Inp::<3>::any(s);
    let x = inp.get();
    let q = or(then(j(t[0]), j(t[1])), then(j(t[2]), j(t[3])));
    let (o1, l1, l2) = if ws {
        let p = or(merr_state(then(j(t[0]), j(t[1]))), then(j(t[2]), j(t[3])));
        differential!(p, q, x)
    } else {
        let p = or(merr(then(j(t[0]), j(t[1]))), then(j(t[2]), j(t[3])));
        differential!(p, q, x)
    };
    if let (None, Some(a), Some(b)) = (o1, l1, l2) {
        check!("C17:map_err-changes-expectations", a.exp() == b.exp());
        let n = x.len();
        let a0 = n > 0 && x[0] == t[0];
        let a1 = n > 1 && x[1] == t[1];
        let b0 = n > 0 && x[0] == t[2];
        // the wrapped parser fails at 1 while the other alternative fails at 0: the reported error is the wrapped one's
        if a0 && !a1 && !b0 {
            check!("C17:map_err-applied-to-own-failure", a.marker() == 1 && a.start() == 1);
        }
        cover!("cover:deep-wrapped-failure", a0 && !a1 && !b0);
        cover!("cover:both-at-position-1", a0 && !a1 && b0);
    }
}

/// @harness props=C17:Q,C20:T n=3 err=BitErr finding=F10
/// @shape t0? then M(t1?) then t2    vs   t0? then t1? then t2          M = map_err(set marker)
/// @symbolic t0..t2: u8
/// @aims a map_err around a parser that SUCCEEDS must not disturb the pending error left by an earlier alternative (and by its own parser)
pub fn c17_map_err_success_body<S: Src>(s: &mut S) {
    let t = [s.u8(), s.u8(), s.u8()];
    let inp = Inp::<3>::any(s);
    let x = inp.get();
    let p = then(ornot(j(t[0])), then(merr(ornot(j(t[1]))), j(t[2])));
    let q = then(ornot(j(t[0])), then(ornot(j(t[1])), j(t[2])));
    let r1 = p.parse(x);
    let r2 = q.parse(x);
    contract(&r1);
    contract(&r2);
    let (o1, e1) = r1.into_output_errors();
    let (o2, e2) = r2.into_output_errors();
    check!("C17:decoration-changes-acceptance", o1.is_some() == o2.is_some());
    check!("C17:decoration-changes-error-count", e1.len() == e2.len());
    if let (Some(a), Some(b)) = (e1.last().copied(), e2.last().copied()) {
        check!("C17:decoration-changes-error-span", a.start() == b.start() && a.end() == b.end());
        check!("C17:map_err-on-success-loses-expectations", a.exp() == b.exp());
    }
    cover!("cover:accept", o1.is_some());
    cover!("cover:reject", o1.is_none());
}

/// @harness props=C17:T,C20:T n=3 err=BitErr timeout=900
/// @shape L(t0 L'(t1 t2)) nested labels, as_context on both, vs undecorated
/// @symbolic t0..t2: u8
/// @aims nested labels: each level decides by its own start position
pub fn c17_label_nested_body<S: Src>(s: &mut S) {
    let t = [s.u8(), s.u8(), s.u8()];
    let inp = Inp::<3>::any(s);
    let x = inp.get();
    let inner = then(j(t[1]), j(t[2])).labelled(Lbl(2)).as_context();
    let p = lab(then(j(t[0]), inner), true);
    let q = then(j(t[0]), then(j(t[1]), j(t[2])));
    let (o1, l1, _l2) = differential!(p, q, x);
    if let (None, Some(e)) = (o1, l1) {
        let n = x.len();
        let a0 = n > 0 && x[0] == t[0];
        let a1 = n > 1 && x[1] == t[1];
        let a2 = n > 2 && x[2] == t[2];
        if !a0 {
            check!("C17:label-replaces-first-token-expectations", e.exp() == LABEL1 && e.ctx_n() == 0);
        } else if !a1 {
            // inner label fails at ITS first token (1): inner label shown; outer adds its context
            check!("C17:inner-label-at-its-first-token", e.exp() == (X_LABEL0 << 2));
            check!("C17:as_context-adds-label-and-span", e.ctx_n() == 1 && e.ctx_label() == 1 && e.ctx_start() == 0 && e.ctx_end() == 1);
        } else if !a2 {
            check!("C17:inner-expectations-kept", e.exp() == xbit(t[2]) && e.start() == 2);
            check!("C17:nested-contexts-both-added", e.ctx_n() == 2);
        }
    }
}

crate::harnesses! {
    c17_label_choice [6] = c17_label_choice_body;
    c17_label_pending [6] = c17_label_pending_body;
    c17_map_err [6] = c17_map_err_body;
    c17_map_err_success [6] = c17_map_err_success_body;
    c17_label_success [6] = c17_label_success_body;
    c17_map_err_deep [6] = c17_map_err_deep_body;
    c17_label_nested [6] = c17_label_nested_body;
}
