//! Hand-written harnesses (shapes that the catalogue generator does not express).
use crate::obs::{same, Tr};
use crate::prims::pc::*;
use crate::refsem::{self, Env, G};
use crate::sym::{Inp, Src};
use crate::{check, contract, cover};

/// @harness props=C01:Q n=3 err=Cheap
/// @shape <(<(t0 t1)>#1 | <(t2 <t3?>)>#2)> <any>
/// @aims end-to-end smoke of the refsem-vs-chumsky mechanism
pub fn smoke_body<S: Src>(s: &mut S) {
    let t = [s.u8(), s.u8(), s.u8(), s.u8()];
    let inp = Inp::<3>::any(s);
    let x = inp.get();
    let p = then(
        sp(or(
            tag(1, sp(then(j(t[0]), j(t[1])))),
            tag(2, sp(then(j(t[2]), sp(ornot(j(t[3])))))),
        )),
        sp(any_()),
    );
    let r = p.parse(x);
    contract(&r);
    let out = r.output().copied();
    const AST: G = G::Then(
        &G::Span(&G::Or(
            &G::Tag(1, &G::Span(&G::Then(&G::Just(0), &G::Just(1)))),
            &G::Tag(2, &G::Span(&G::Then(&G::Just(2), &G::Span(&G::OrNot(&G::Just(3)))))),
        )),
        &G::Span(&G::Any),
    );
    let mut env = Env::new(x, &t);
    let e = refsem::parse(&AST, &mut env);
    check!("C01:smoke:acceptance", out.is_some() == e.is_some());
    check!("C01:smoke:output", same(&out, &e));
    cover!("cover:accept-full", out.is_some() && x.len() == 3);
    cover!("cover:reject", out.is_none());
    let _ = Tr::unit();
}

/// @harness props=SELFTEST:Q n=2 err=Cheap expect_fail=1
/// @shape (t0 t0) must never accept — deliberately false
/// @aims runner self-test: failure path, playback extraction, native replay
pub fn selftest_fail_body<S: Src>(s: &mut S) {
    let t = [s.u8()];
    let inp = Inp::<2>::any(s);
    let x = inp.get();
    let r = then(j(t[0]), j(t[0])).parse(x);
    contract(&r);
    check!("SELFTEST:fail:never-accepts", !r.has_output());
}

crate::harnesses! {
    smoke [12] = smoke_body;
    selftest_fail [6] = selftest_fail_body;
}
