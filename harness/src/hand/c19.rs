//! C19 — every value produced by user mappers is dropped exactly once or handed to the caller.
//! `D` is a drop-tracking output type: a global live counter plus a per-instance "already dropped" bit.
#![allow(static_mut_refs)]
use crate::sym::{Inp, Src};
use crate::{check, contract, cover};
use chumsky::error::Cheap;
use chumsky::extra;
use chumsky::prelude::*;

// NOTE: the initial values are deliberately NOT zero. Kani 0.68 merges a `static mut` whose initial bytes equal those
// of an anonymous constant allocation with that constant: with `static mut DROPPED: u64 = 0` a write to DROPPED also
// changed `alloc::raw_vec::ZERO_CAP` (a zero usize), and every empty `Vec` was then "deallocated" with capacity 1 —
// spurious `__rust_dealloc` failures in every harness of this module (Miri-clean natively; found from the CBMC
// trace: `RawVecInner::new_in` returned cap = 1 right after a `D` with id 0 had been dropped). `reset()` sets the
// real start values at run time.
static mut LIVE: i32 = 0x5EED_0001;
static mut NEXT: u32 = 0x5EED_0002;
static mut DROPPED: u64 = 0x5EED_0003_5EED_0004;
static mut DOUBLE: bool = true;

fn reset() {
    unsafe {
        LIVE = 0;
        NEXT = 0;
        DROPPED = 0;
        DOUBLE = false;
    }
}
fn live() -> i32 {
    unsafe { LIVE }
}
fn double() -> bool {
    unsafe { DOUBLE }
}
fn created() -> u32 {
    unsafe { NEXT }
}

pub struct D {
    id: u32,
    pub tok: u8,
}

impl D {
    pub fn new(tok: u8) -> D {
        unsafe {
            let id = NEXT;
            NEXT += 1;
            LIVE += 1;
            D { id, tok }
        }
    }
}

impl Drop for D {
    fn drop(&mut self) {
        unsafe {
            let bit = 1u64 << (self.id & 63);
            if DROPPED & bit != 0 {
                DOUBLE = true;
            }
            DROPPED |= bit;
            LIVE -= 1;
        }
    }
}

type X<'a> = extra::Err<Cheap>;
type I<'a> = &'a [u8];

fn d<'a>(c: u8) -> impl Parser<'a, I<'a>, D, X<'a>> + Clone {
    just::<u8, I<'a>, X<'a>>(c).map(D::new)
}
fn da<'a>() -> impl Parser<'a, I<'a>, D, X<'a>> + Clone {
    any::<I<'a>, X<'a>>().map(D::new)
}

/// after the result has been dropped nothing may be live and nothing may have been dropped twice
macro_rules! finish {
    ($p:expr, $x:expr, $held:expr) => {{
        reset();
        {
            let r = $p.parse($x);
            contract(&r);
            // while the result is alive, exactly the values inside the returned output are live
            let held: i32 = match r.output() {
                Some(o) => $held(o),
                None => 0,
            };
            check!("C19:live-values-equal-returned-output", live() == held);
            cover!("cover:accept", r.has_output());
            cover!("cover:reject-after-building-values", !r.has_output() && created() > 0);
            drop(r);
        }
        check!("C19:parse-no-leak", live() == 0);
        check!("C19:parse-no-double-drop", !double());
        reset();
        {
            let r = $p.check($x);
            contract(&r);
            drop(r);
        }
        check!("C19:check-no-leak", live() == 0);
        check!("C19:check-no-double-drop", !double());
    }};
}

/// @harness props=C19:Q,C20:T n=3 err=Cheap finding=F3
/// @shape group([D(t0), D(any), D(t1)])          [array form: MaybeUninit slots]
/// @symbolic t0, t1: u8
/// @aims the k-th element of an array group fails after k-1 values were written into MaybeUninit slots
pub fn c19_group_array_body<S: Src>(s: &mut S) {
    let t = [s.u8(), s.u8()];
    let inp = Inp::<3>::any(s);
    let x = inp.get();
    let p = group([d(t[0]).boxed(), da().boxed(), d(t[1]).boxed()]);
    finish!(p, x, |_o: &[D; 3]| 3);
}

/// @harness props=C19:Q,C20:T n=3 err=Cheap
/// @shape group((D(t0), D(any), D(t1)))          [tuple form]
/// @symbolic t0, t1: u8
/// @aims tuple group: values of a failed sequence are dropped
pub fn c19_group_tuple_body<S: Src>(s: &mut S) {
    let t = [s.u8(), s.u8()];
    let inp = Inp::<3>::any(s);
    let x = inp.get();
    let p = group((d(t[0]), da(), d(t[1])));
    finish!(p, x, |_o: &(D, D, D)| 3);
}

/// @harness props=C19:Q,C20:T n=3 err=Cheap
/// @shape D(t0).repeated().collect_exactly::<[D; 2]>() then D(any)?
/// @symbolic t0: u8
/// @aims collect_exactly drops the initialised prefix when fewer than N items are found
pub fn c19_collect_exactly_body<S: Src>(s: &mut S) {
    let t = [s.u8()];
    let inp = Inp::<3>::any(s);
    let x = inp.get();
    let p = d(t[0]).repeated().collect_exactly::<[D; 2]>().then(da().or_not());
    finish!(p, x, |o: &([D; 2], Option<D>)| 2 + if o.1.is_some() { 1 } else { 0 });
}

/// @harness props=C19:Q,C20:T n=3 err=Cheap
/// @shape D(t0).repeated().at_least(t1).collect_exactly::<[D; 2]>()   |   D(any)*.collect::<Vec<D>>()
/// @symbolic t0: u8, t1 in 0..=3
/// @aims the inner iterator ERRORS (at_least not reached) after one element was written; the enclosing choice backtracks
pub fn c19_collect_exactly_err_body<S: Src>(s: &mut S) {
    let t = [s.u8(), s.upto(3)];
    let inp = Inp::<3>::any(s);
    let x = inp.get();
    let a = d(t[0])
        .repeated()
        .at_least(t[1] as usize)
        .collect_exactly::<[D; 2]>()
        .map(|v: [D; 2]| (2i32, v.into_iter().collect::<Vec<D>>()));
    let b = da().repeated().collect::<Vec<D>>().map(|v: Vec<D>| (v.len() as i32, v));
    let p = a.or(b);
    finish!(p, x, |o: &(i32, Vec<D>)| o.0);
}

/// @harness props=C19:Q,C20:T n=3 err=Cheap
/// @shape D(t0).repeated().collect_exactly::<Box<[D; 2]>>()
/// @symbolic t0: u8
/// @aims boxed fixed-size container
pub fn c19_collect_exactly_box_body<S: Src>(s: &mut S) {
    let t = [s.u8()];
    let inp = Inp::<3>::any(s);
    let x = inp.get();
    let p = d(t[0]).repeated().collect_exactly::<Box<[D; 2]>>().then_ignore(any().or_not());
    finish!(p, x, |_o: &Box<[D; 2]>| 2);
}

/// @harness props=C19:Q,C20:T n=3 err=Cheap
/// @shape (D(t0) D(t1)) | (D(t0) D(any)?)        [first alternative builds one value and then fails]
/// @symbolic t0, t1: u8
/// @aims values built by an abandoned alternative are dropped exactly once
pub fn c19_choice_body<S: Src>(s: &mut S) {
    let t = [s.u8(), s.u8()];
    let inp = Inp::<3>::any(s);
    let x = inp.get();
    let a = d(t[0]).then(d(t[1])).map(|(a, b)| (a, Some(b)));
    let b = d(t[0]).then(da().or_not());
    let p = a.or(b);
    finish!(p, x, |o: &(D, Option<D>)| 1 + if o.1.is_some() { 1 } else { 0 });
}

/// @harness props=C19:Q,C20:T n=4 err=Cheap
/// @shape D(t0).repeated().at_least(2).collect::<Vec<D>>()  then  D(any).foldl(D(t1).repeated(), keep-right)
/// @symbolic t0, t1: u8
/// @aims Vec collection failing after one item; foldl intermediate values
pub fn c19_repeat_fold_body<S: Src>(s: &mut S) {
    let t = [s.u8(), s.u8()];
    let inp = Inp::<4>::any(s);
    let x = inp.get();
    let items = d(t[0]).repeated().at_least(2).collect::<Vec<D>>();
    let fold = da().foldl(d(t[1]).repeated(), |_a: D, b: D| b);
    let p = items.or_not().then(fold.or_not());
    finish!(p, x, |o: &(Option<Vec<D>>, Option<D>)| {
        (match &o.0 {
            Some(v) => v.len() as i32,
            None => 0,
        }) + if o.1.is_some() { 1 } else { 0 }
    });
}

/// @harness props=C19:Q,C20:T n=3 err=Cheap
/// @shape (D(t0) then D(t1)).recover_with(via_parser(D(any)))  ;  and_is / rewind / not around value-building parsers
/// @symbolic t0, t1: u8
/// @aims recovery discards the partial values of the failed attempt; lookahead values are dropped
pub fn c19_recover_lookahead_body<S: Src>(s: &mut S) {
    let t = [s.u8(), s.u8()];
    let inp = Inp::<3>::any(s);
    let x = inp.get();
    let rec = d(t[0]).then(d(t[1])).map(|(a, _b)| a).recover_with(via_parser(da()));
    let look = da().rewind().then(da().and_is(d(t[1]).not())).map(|(_a, b)| b);
    let p = rec.then(look.or_not());
    finish!(p, x, |o: &(D, Option<D>)| 1 + if o.1.is_some() { 1 } else { 0 });
}

// ---- the caller's tokens: never dropped or duplicated other than by Clone -------------------------------------

static mut TOK_LIVE: i32 = 0;
static mut TOK_CLONES: i32 = 0;

#[derive(PartialEq, Eq, Debug)]
pub struct CT(pub u8);
impl CT {
    fn new(v: u8) -> CT {
        unsafe { TOK_LIVE += 1 };
        CT(v)
    }
}
impl Clone for CT {
    fn clone(&self) -> CT {
        unsafe {
            TOK_LIVE += 1;
            TOK_CLONES += 1;
        }
        CT(self.0)
    }
}
impl Drop for CT {
    fn drop(&mut self) {
        unsafe { TOK_LIVE -= 1 };
    }
}

/// @harness props=C19:Q,C20:T n=3 err=Cheap
/// @shape input &[CT] (clone-counting token): (any any) | (any then just(CT t0)?) collected into Vec<CT>
/// @symbolic t0: u8
/// @aims tokens handed out by the input are clones; after the parse (and after dropping the result) exactly the caller's buffer is live
pub fn c19_tokens_body<S: Src>(s: &mut S) {
    let t0 = s.u8();
    let inp = Inp::<3>::any(s);
    let x = inp.get();
    unsafe {
        TOK_LIVE = 0;
        TOK_CLONES = 0;
    }
    {
        let mut buf: Vec<CT> = Vec::new();
        let mut i = 0;
        while i < x.len() {
            buf.push(CT::new(x[i]));
            i += 1;
        }
        let n = buf.len() as i32;
        {
            type XI<'a> = extra::Err<Cheap>;
            let two = any::<&[CT], XI>().then(any()).map(|(a, b)| vec![a, b]);
            let opt = any::<&[CT], XI>()
                .then(just(CT::new(t0)).or_not())
                .map(|(a, b): (CT, Option<CT>)| {
                    let mut v = vec![a];
                    if let Some(b) = b {
                        v.push(b);
                    }
                    v
                });
            let p = two.then_ignore(end()).or(opt);
            let r = p.parse(&buf[..]);
            contract(&r);
            let held = match r.output() {
                Some(v) => v.len() as i32,
                None => 0,
            };
            // live = caller's buffer + tokens inside the output + the pattern token owned by the parser
            check!("C19:tokens-live-equals-buffer-plus-output", unsafe { TOK_LIVE } == n + held + 1);
            cover!("cover:accept", r.has_output());
            cover!("cover:reject", !r.has_output());
            drop(r);
        }
        check!("C19:tokens-only-buffer-live-after-parse", unsafe { TOK_LIVE } == n);
    }
    check!("C19:tokens-all-dropped", unsafe { TOK_LIVE } == 0);
}

crate::harnesses! {
    c19_group_array [6] = c19_group_array_body;
    c19_group_tuple [6] = c19_group_tuple_body;
    c19_collect_exactly [6] = c19_collect_exactly_body;
    c19_collect_exactly_err [6] = c19_collect_exactly_err_body;
    c19_collect_exactly_box [6] = c19_collect_exactly_box_body;
    c19_choice [6] = c19_choice_body;
    c19_repeat_fold [7] = c19_repeat_fold_body;
    c19_recover_lookahead [6] = c19_recover_lookahead_body;
    c19_tokens [6] = c19_tokens_body;
}
