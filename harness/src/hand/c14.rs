//! C14 — text parsers recognise exactly their documented languages (recognisers written with plain loops as oracle).
use crate::sym::{Inp, Src};
use crate::{check, contract, cover};
use chumsky::error::Cheap;
use chumsky::extra;
use chumsky::prelude::*;

type X<'a> = extra::Err<Cheap>;
type IB<'a> = &'a [u8];

fn digit_val(b: u8) -> u32 {
    match b {
        b'0'..=b'9' => (b - b'0') as u32,
        b'a'..=b'z' => (b - b'a') as u32 + 10,
        b'A'..=b'Z' => (b - b'A') as u32 + 10,
        _ => 99,
    }
}
/// length of the longest prefix that is an integer literal of radix r without superfluous leading zero (0 = none)
fn int_len(x: &[u8], r: u32) -> usize {
    if x.is_empty() || digit_val(x[0]) >= r {
        return 0;
    }
    if x[0] == b'0' {
        return 1;
    }
    let mut n = 1;
    while n < x.len() && digit_val(x[n]) < r {
        n += 1;
    }
    n
}
fn is_ident_start(b: u8) -> bool {
    b.is_ascii_alphabetic() || b == b'_'
}
fn is_ident_cont(b: u8) -> bool {
    b.is_ascii_alphanumeric() || b == b'_'
}
fn ident_len(x: &[u8]) -> usize {
    if x.is_empty() || !is_ident_start(x[0]) {
        return 0;
    }
    let mut n = 1;
    while n < x.len() && is_ident_cont(x[n]) {
        n += 1;
    }
    n
}

macro_rules! prefix_parser {
    ($label:literal, $p:expr, $x:expr, $want_len:expr) => {{
        // parser under test, then the rest of the input: observes the matched slice and the position
        let r = $p.then(any::<IB, X>().repeated().to_slice()).parse($x);
        contract(&r);
        let want: usize = $want_len;
        check!($label, r.has_output() == (want > 0));
        if let Some((sl, rest)) = r.output() {
            check!($label, sl.len() == want && rest.len() == $x.len() - want);
            check!("C14:returns-the-matched-slice-of-the-input", sl.as_ptr() == $x.as_ptr());
        }
        cover!("cover:accept", r.has_output() && want >= 1);
        cover!("cover:reject", !r.has_output());
    }};
}

/// @harness props=C14:Q,C20:T n=3 err=Cheap
/// @shape text::int(10) then rest, on ARBITRARY bytes   vs   hand recogniser (non-empty radix-10 digits, no superfluous leading zero)
/// @symbolic 3 arbitrary bytes
/// @aims int(10): "0" alone, no leading zero, stops at the first non-digit
pub fn c14_int10_body<S: Src>(s: &mut S) {
    let inp = Inp::<3>::any(s);
    let x = inp.get();
    prefix_parser!("C14:int-radix-10", text::int::<IB, X>(10), x, int_len(x, 10));
}

/// @harness props=C14:T,C20:T n=3 err=Cheap timeout=1200
/// @shape text::int(r) for r in {2, 8, 16, 36} (symbolic choice among the four instantiations)
/// @symbolic 3 arbitrary bytes; which radix
/// @aims the other radices incl. letters as digits, upper and lower case
pub fn c14_int_radices_body<S: Src>(s: &mut S) {
    let which = s.upto(3);
    let inp = Inp::<3>::any(s);
    let x = inp.get();
    match which {
        0 => prefix_parser!("C14:int-radix-2", text::int::<IB, X>(2), x, int_len(x, 2)),
        1 => prefix_parser!("C14:int-radix-8", text::int::<IB, X>(8), x, int_len(x, 8)),
        2 => prefix_parser!("C14:int-radix-16", text::int::<IB, X>(16), x, int_len(x, 16)),
        _ => prefix_parser!("C14:int-radix-36", text::int::<IB, X>(36), x, int_len(x, 36)),
    }
}

/// @harness props=C14:Q,C20:T n=3 err=Cheap
/// @shape text::digits(16).to_slice() then rest ; text::ascii::ident() then rest   (symbolic choice)  on arbitrary bytes
/// @symbolic 3 arbitrary bytes; which
/// @aims digits(r): one or more radix-r digits (here as a unit parser: zero digits are accepted by repeated() itself); ident: [A-Za-z_][A-Za-z0-9_]*
pub fn c14_digits_ident_body<S: Src>(s: &mut S) {
    let which = s.bool();
    let inp = Inp::<3>::any(s);
    let x = inp.get();
    if which {
        let mut n = 0;
        while n < x.len() && digit_val(x[n]) < 16 {
            n += 1;
        }
        prefix_parser!("C14:digits-radix-16", text::digits::<IB, X>(16).at_least(1).to_slice(), x, n);
    } else {
        prefix_parser!("C14:ascii-ident", text::ascii::ident::<IB, X>(), x, ident_len(x));
    }
}

/// @harness props=C14:Q,C20:T n=4 err=Cheap timeout=900
/// @shape text::ascii::keyword("ab") then rest   on arbitrary bytes
/// @symbolic 4 arbitrary bytes
/// @aims keyword(k): an identifier that is exactly k — never a prefix of a longer identifier ("abc", "ab_", "ab1" are rejected)
pub fn c14_keyword_body<S: Src>(s: &mut S) {
    let inp = Inp::<4>::any(s);
    let x = inp.get();
    let n = ident_len(x);
    let want = if n == 2 && x[0] == b'a' && x[1] == b'b' { 2 } else { 0 };
    prefix_parser!("C14:keyword-is-a-whole-identifier", text::ascii::keyword::<IB, _, X>(b"ab" as &[u8]), x, want);
    cover!("cover:longer-identifier-rejected", x.len() >= 3 && x[0] == b'a' && x[1] == b'b' && is_ident_cont(x[2]));
}

/// @harness props=C14:Q,C20:T n=3 err=Cheap
/// @shape whitespace().to_slice() ; inline_whitespace().to_slice() ; just(t0).padded()  on arbitrary bytes (symbolic choice)
/// @symbolic 3 arbitrary bytes; t0; which 0..=2
/// @aims whitespace = any run of whitespace (ASCII: 09..0D and 20); inline = space/tab; padded skips whitespace only and does not mask an inner failure
pub fn c14_whitespace_body<S: Src>(s: &mut S) {
    let which = s.upto(2);
    let t0 = s.u8();
    let inp = Inp::<3>::any(s);
    let x = inp.get();
    let is_ws = |b: u8| b == b' ' || (0x09..=0x0d).contains(&b);
    let is_inline = |b: u8| b == b' ' || b == b'\t';
    if which == 0 {
        let mut n = 0;
        while n < x.len() && is_ws(x[n]) {
            n += 1;
        }
        let r = text::whitespace::<IB, X>().to_slice().then(any::<IB, X>().repeated().to_slice()).parse(x);
        contract(&r);
        check!("C14:whitespace-run", r.output().map(|o| o.0.len()) == Some(n));
    } else if which == 1 {
        let mut n = 0;
        while n < x.len() && is_inline(x[n]) {
            n += 1;
        }
        let r = text::inline_whitespace::<IB, X>().to_slice().then(any::<IB, X>().repeated().to_slice()).parse(x);
        contract(&r);
        check!("C14:inline-whitespace-run", r.output().map(|o| o.0.len()) == Some(n));
    } else {
        let r = just::<u8, IB, X>(t0).padded().parse(x);
        contract(&r);
        // oracle: ws* t0 ws* covering the whole input (t0 itself not whitespace, else it is skipped as padding)
        let mut i = 0;
        while i < x.len() && is_ws(x[i]) {
            i += 1;
        }
        let mut want = i < x.len() && x[i] == t0;
        let mut k = i + 1;
        while want && k < x.len() {
            want &= is_ws(x[k]);
            k += 1;
        }
        check!("C14:padded-skips-whitespace-only", r.has_output() == want);
        cover!("cover:padded-both-sides", r.has_output() && x.len() == 3 && i == 1);
    }
}

/// `&str` of up to 3 characters from an alphabet containing the eight line terminators' characters
/// plus two characters that are NOT terminators but whose low byte is CR / LF (U+010D, U+010A)
const NL_ALPHA: [char; 10] = ['\n', '\r', '\x0B', '\x0C', '\u{85}', '\u{2028}', '\u{2029}', 'a', '\u{10D}', '\u{10A}'];
fn is_nl(c: char) -> bool {
    matches!(c, '\n' | '\r' | '\x0B' | '\x0C' | '\u{85}' | '\u{2028}' | '\u{2029}')
}

/// @harness props=C14:Q,C20:T n=3 err=Cheap timeout=900 input=&str_of_up_to_3_chars_from_{LF,CR,VT,FF,NEL,LS,PS,a,U+010D,U+010A}
/// @shape text::newline().to_slice() then rest, on &str
/// @symbolic each character: index 0..=9; number of characters 0..=3
/// @aims newline = exactly the eight documented terminators, CR LF consumed as one, a lone CR consumes only itself; characters that merely END in the byte 0x0D / 0x0A are not terminators
pub fn c14_newline_body<S: Src>(s: &mut S) {
    let mut buf = [0u8; 12];
    let mut len = 0usize;
    let mut cs = ['a'; 3];
    let n = s.upto(3) as usize;
    let mut i = 0;
    while i < 3 {
        let k = s.upto(9) as usize;
        if i < n {
            cs[i] = NL_ALPHA[k];
            len += NL_ALPHA[k].encode_utf8(&mut buf[len..]).len();
        }
        i += 1;
    }
    let x = unsafe { core::str::from_utf8_unchecked(&buf[..len]) };
    let r = text::newline::<&str, X>().to_slice().then(any::<&str, X>().repeated().to_slice()).parse(x);
    contract(&r);
    let want = if n == 0 || !is_nl(cs[0]) {
        0
    } else if cs[0] == '\r' && n >= 2 && cs[1] == '\n' {
        2
    } else {
        cs[0].len_utf8()
    };
    check!("C14:newline-terminators", r.has_output() == (want > 0));
    if let Some((nl, rest)) = r.output() {
        check!("C14:newline-consumes-exactly-one-terminator", nl.len() == want && rest.len() == x.len() - want);
    }
    cover!("cover:crlf", want == 2 && cs[0] == '\r');
    cover!("cover:lone-cr-followed-by-other", r.has_output() && cs[0] == '\r' && n >= 2 && cs[1] != '\n');
    cover!("cover:reject", !r.has_output());
    cover!("cover:reject-low-byte-cr", !r.has_output() && n >= 1 && cs[0] == '\u{10D}');
}

/// characters for identifiers on `&str`: ASCII letters / digit / underscore / space, and non-ASCII characters whose
/// LOW BYTE is an ASCII letter or digit (U+0141 -> 'A', U+0131 -> '1') or that are alphabetic but not ASCII (é)
const ID_ALPHA: [char; 8] = ['a', 'Z', '_', '7', '\u{141}', '\u{131}', 'é', ' '];

/// @harness props=C14:Q,C20:T n=3 err=Cheap timeout=900 input=&str_of_up_to_3_chars_from_{a,Z,_,7,U+0141,U+0131,é,space}
/// @shape text::ascii::ident() then rest, on &str with non-ASCII characters
/// @symbolic each character: index 0..=7; number of characters 0..=3
/// @aims ascii::ident on &str = [A-Za-z_][A-Za-z0-9_]* over CHARACTERS: a non-ASCII character never counts as an ASCII letter or digit (not even when its low byte is one); the slice ends on a character boundary
pub fn c14_str_ident_body<S: Src>(s: &mut S) {
    let mut buf = [0u8; 12];
    let mut len = 0usize;
    let mut cs = [' '; 3];
    let n = s.upto(3) as usize;
    let mut i = 0;
    while i < 3 {
        let k = s.upto(7) as usize;
        if i < n {
            cs[i] = ID_ALPHA[k];
            len += ID_ALPHA[k].encode_utf8(&mut buf[len..]).len();
        }
        i += 1;
    }
    let x = unsafe { core::str::from_utf8_unchecked(&buf[..len]) };
    let r = text::ascii::ident::<&str, X>().then(any::<&str, X>().repeated().to_slice()).parse(x);
    contract(&r);
    let start = |c: char| c.is_ascii_alphabetic() || c == '_';
    let cont = |c: char| c.is_ascii_alphanumeric() || c == '_';
    let mut want = 0usize;
    if n >= 1 && start(cs[0]) {
        want = cs[0].len_utf8();
        let mut k = 1;
        while k < n && cont(cs[k]) {
            want += cs[k].len_utf8();
            k += 1;
        }
    }
    check!("C14:ascii-ident-on-str", r.has_output() == (want > 0));
    if let Some((id, rest)) = r.output() {
        check!("C14:ascii-ident-on-str-extent", id.len() == want && rest.len() == x.len() - want);
        check!("C14:returns-the-matched-slice-of-the-input", id.as_ptr() == x.as_ptr());
    }
    cover!("cover:stops-at-non-ascii", r.has_output() && n == 3 && want == 1 && !cs[1].is_ascii());
    cover!("cover:reject-non-ascii-start", !r.has_output() && n >= 1 && !cs[0].is_ascii());
}

/// @harness props=C14:Q,C20:T n=2 err=Cheap timeout=900 input=&str_of_up_to_2_chars:_the_first_ANY_Unicode_scalar_value,_the_second_from_{a,7,_,é,U+0301,space}
/// @shape text::unicode::ident() then rest, on &str
/// @symbolic first character: 21 bits constrained to a valid scalar value; second: index 0..=5; number of characters 0..=2
/// @aims unicode::ident = (XID_Start | _) XID_Continue* over CHARACTERS (the XID classification itself is the given one: the oracle asks chumsky's own Char::is_ident_start / is_ident_continue per character; decided here: the start / continue structure and the returned slice)
pub fn c14_unicode_ident_body<S: Src>(s: &mut S) {
    use chumsky::text::Char;
    const AL2: [char; 6] = ['a', '7', '_', 'é', '\u{301}', ' '];
    let v = ((s.u8() as u32) << 16 | (s.u8() as u32) << 8 | s.u8() as u32) & 0x1f_ffff;
    let c0 = match char::from_u32(v) {
        Some(c) => c,
        None => {
            crate::sym::assume(false);
            'a'
        }
    };
    let c1 = AL2[s.upto(5) as usize];
    let n = s.upto(2) as usize;
    let mut buf = [0u8; 8];
    let mut len = 0usize;
    if n >= 1 {
        len += c0.encode_utf8(&mut buf[len..]).len();
    }
    if n >= 2 {
        len += c1.encode_utf8(&mut buf[len..]).len();
    }
    let x = unsafe { core::str::from_utf8_unchecked(&buf[..len]) };
    let r = text::unicode::ident::<&str, X>().then(any::<&str, X>().repeated().to_slice()).parse(x);
    contract(&r);
    let mut want = 0usize;
    if n >= 1 && c0.is_ident_start() {
        want = c0.len_utf8();
        if n >= 2 && c1.is_ident_continue() {
            want += c1.len_utf8();
        }
    }
    check!("C14:unicode-ident", r.has_output() == (want > 0));
    if let Some((id, rest)) = r.output() {
        check!("C14:unicode-ident-extent", id.len() == want && rest.len() == x.len() - want);
        check!("C14:returns-the-matched-slice-of-the-input", id.as_ptr() == x.as_ptr());
    }
    cover!("cover:non-ascii-start", r.has_output() && n == 2 && !c0.is_ascii());
    cover!("cover:reject", !r.has_output() && n >= 1);
}

/// @harness props=C14:Q,C20:T n=2 err=Cheap timeout=900 input=ASCII
/// @shape whitespace / ascii::ident / int(10) each on &str and on &[u8] for the same ASCII text (symbolic choice)
/// @symbolic 2 bytes < 128; which 0..=2
/// @aims text parsers behave identically on &str and &[u8] for ASCII text
pub fn c14_str_vs_bytes_body<S: Src>(s: &mut S) {
    let which = s.upto(2);
    let inp = Inp::<2>::any_upto(s, 127);
    let x = inp.get();
    let st = match core::str::from_utf8(x) {
        Ok(v) => v,
        Err(_) => return,
    };
    let (a, b) = match which {
        0 => (
            text::whitespace::<IB, X>().to_slice().then_ignore(any().repeated()).parse(x).output().map(|s| s.len()),
            text::whitespace::<&str, X>().to_slice().then_ignore(any().repeated()).parse(st).output().map(|s| s.len()),
        ),
        1 => (
            text::ascii::ident::<IB, X>().then_ignore(any().repeated()).parse(x).output().map(|s| s.len()),
            text::ascii::ident::<&str, X>().then_ignore(any().repeated()).parse(st).output().map(|s| s.len()),
        ),
        _ => (
            text::int::<IB, X>(10).then_ignore(any().repeated()).parse(x).output().map(|s| s.len()),
            text::int::<&str, X>(10).then_ignore(any().repeated()).parse(st).output().map(|s| s.len()),
        ),
    };
    check!("C14:str-and-bytes-agree-on-ascii", a == b);
    cover!("cover:whitespace", which == 0 && a == Some(2));
}

crate::harnesses! {
    c14_int10 [6] = c14_int10_body;
    c14_int_radices [6] = c14_int_radices_body;
    c14_digits_ident [6] = c14_digits_ident_body;
    c14_keyword [7] = c14_keyword_body;
    c14_whitespace [6] = c14_whitespace_body;
    c14_newline [8] = c14_newline_body;
    c14_str_ident [8] = c14_str_ident_body;
    c14_unicode_ident [8] = c14_unicode_ident_body;
    c14_str_vs_bytes [5] = c14_str_vs_bytes_body;
}
