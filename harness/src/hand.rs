//! Hand-written harnesses (shapes that the catalogue generator does not express).
use crate::obs::{same, Tr};
use crate::prims::pc::*;
use crate::refsem::{self, Env, G};
use crate::sym::{Inp, Src};
use crate::{check, contract, cover};

/// smoke: sp(sp(t0 t1) | sp(t2 sp(t3?))) sp(any)
pub fn smoke_body<S: Src>(s: &mut S) {
    let t = [s.u8(), s.u8(), s.u8(), s.u8()];
    let inp = Inp::<3>::any(s);
    let x = inp.get();
    let p = then(
        sp(or(
            tag(1, sp(then(j(t[0]), j(t[1])))),
            tag(2, sp(then(j(t[2]), sp(ornot(j(t[3])))))),
        )),
        sp(any_()),
    );
    let r = p.parse(x);
    contract(&r);
    let out = r.output().copied();
    const AST: G = G::Then(
        &G::Span(&G::Or(
            &G::Tag(1, &G::Span(&G::Then(&G::Just(0), &G::Just(1)))),
            &G::Tag(2, &G::Span(&G::Then(&G::Just(2), &G::Span(&G::OrNot(&G::Just(3)))))),
        )),
        &G::Span(&G::Any),
    );
    let mut env = Env::new(x, &t);
    let e = refsem::parse(&AST, &mut env);
    check!("C01:smoke:acceptance", out.is_some() == e.is_some());
    check!("C01:smoke:output", same(&out, &e));
    cover!("cover:accept-full", out.is_some() && x.len() == 3);
    cover!("cover:reject", out.is_none());
    let _ = Tr::unit();
}

/// Runner self-test: this harness MUST fail (and its counterexample must replay natively).
pub fn selftest_fail_body<S: Src>(s: &mut S) {
    let t = [s.u8()];
    let inp = Inp::<2>::any(s);
    let x = inp.get();
    let r = then(j(t[0]), j(t[0])).parse(x);
    contract(&r);
    check!("SELFTEST:fail:never-accepts", !r.has_output());
}

crate::harnesses! {
    smoke [12] = smoke_body;
    selftest_fail [6] = selftest_fail_body;
}
