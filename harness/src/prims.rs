//! One-line wrappers around the REAL chumsky combinators, instantiated per error type.
//!
//! Every function here only fixes the input type (`&[u8]`), the error type and the digest convention of
//! `obs::Tr`; the parsing is done by chumsky's own `go::<Emit>/<Check>`. The conventions mirror
//! `refsem::G` constructor by constructor.

#[macro_export]
macro_rules! prims {
    ($E:ty) => {
        #[allow(unused_imports)]
        pub use chumsky::prelude::*;
        #[allow(unused_imports)]
        pub use chumsky::{ConfigIterParser, ConfigParser, IterParser, Parser};
        #[allow(unused_imports)]
        use $crate::errs::MkErr;
        #[allow(unused_imports)]
        use $crate::obs::Tr;

        pub type I<'a> = &'a [u8];
        pub type X<'a> = extra::Err<$E>;

        // ---- primitives -----------------------------------------------------------------------
        pub fn j<'a>(c: u8) -> impl Parser<'a, I<'a>, Tr, X<'a>> + Clone {
            just::<u8, I<'a>, X<'a>>(c).map(Tr::tok)
        }
        pub fn j2<'a>(a: u8, b: u8) -> impl Parser<'a, I<'a>, Tr, X<'a>> + Clone {
            just::<[u8; 2], I<'a>, X<'a>>([a, b]).map(|s: [u8; 2]| Tr::tok(s[0]).push(s[1]))
        }
        pub fn any_<'a>() -> impl Parser<'a, I<'a>, Tr, X<'a>> + Clone {
            any::<I<'a>, X<'a>>().map(Tr::tok)
        }
        pub fn one2<'a>(a: u8, b: u8) -> impl Parser<'a, I<'a>, Tr, X<'a>> + Clone {
            one_of::<[u8; 2], I<'a>, X<'a>>([a, b]).map(Tr::tok)
        }
        pub fn none1<'a>(a: u8) -> impl Parser<'a, I<'a>, Tr, X<'a>> + Clone {
            none_of::<[u8; 1], I<'a>, X<'a>>([a]).map(Tr::tok)
        }
        pub fn sel<'a>(th: u8) -> impl Parser<'a, I<'a>, Tr, X<'a>> + Clone {
            chumsky::primitive::select::<_, I<'a>, Tr, X<'a>>(move |x: u8, _| {
                if x > th {
                    Some(Tr::tok(x))
                } else {
                    None
                }
            })
        }
        pub fn end_<'a>() -> impl Parser<'a, I<'a>, Tr, X<'a>> + Clone {
            end::<I<'a>, X<'a>>().map(|()| Tr::unit())
        }
        pub fn empty_<'a>() -> impl Parser<'a, I<'a>, Tr, X<'a>> + Clone {
            empty::<I<'a>, X<'a>>().map(|()| Tr::unit())
        }
        pub fn custom2<'a>(c: u8) -> impl Parser<'a, I<'a>, Tr, X<'a>> + Clone {
            custom::<_, I<'a>, Tr, X<'a>>(move |inp| {
                let before = inp.cursor();
                let a = inp.next();
                let b = inp.next();
                match (a, b) {
                    (Some(a), Some(b)) if b == c => Ok(Tr::tok(a).push(b)),
                    _ => Err(<$E as MkErr>::user(inp.span_since(&before))),
                }
            })
        }

        // ---- sequencing -----------------------------------------------------------------------
        pub fn then<'a>(
            a: impl Parser<'a, I<'a>, Tr, X<'a>> + Clone,
            b: impl Parser<'a, I<'a>, Tr, X<'a>> + Clone,
        ) -> impl Parser<'a, I<'a>, Tr, X<'a>> + Clone {
            a.then(b).map(|(x, y): (Tr, Tr)| x.cat(y))
        }
        pub fn ithen<'a>(
            a: impl Parser<'a, I<'a>, Tr, X<'a>> + Clone,
            b: impl Parser<'a, I<'a>, Tr, X<'a>> + Clone,
        ) -> impl Parser<'a, I<'a>, Tr, X<'a>> + Clone {
            a.ignore_then(b)
        }
        pub fn theni<'a>(
            a: impl Parser<'a, I<'a>, Tr, X<'a>> + Clone,
            b: impl Parser<'a, I<'a>, Tr, X<'a>> + Clone,
        ) -> impl Parser<'a, I<'a>, Tr, X<'a>> + Clone {
            a.then_ignore(b)
        }
        /// group((a, b, c))
        pub fn seq3<'a>(
            a: impl Parser<'a, I<'a>, Tr, X<'a>> + Clone,
            b: impl Parser<'a, I<'a>, Tr, X<'a>> + Clone,
            c: impl Parser<'a, I<'a>, Tr, X<'a>> + Clone,
        ) -> impl Parser<'a, I<'a>, Tr, X<'a>> + Clone {
            group((a, b, c)).map(|(x, y, z): (Tr, Tr, Tr)| x.cat(y).cat(z))
        }
        /// group([a, b, c]) over boxed elements
        pub fn seq3_arr<'a>(
            a: impl Parser<'a, I<'a>, Tr, X<'a>> + Clone + 'a,
            b: impl Parser<'a, I<'a>, Tr, X<'a>> + Clone + 'a,
            c: impl Parser<'a, I<'a>, Tr, X<'a>> + Clone + 'a,
        ) -> impl Parser<'a, I<'a>, Tr, X<'a>> + Clone {
            group([a.boxed(), b.boxed(), c.boxed()]).map(|v: [Tr; 3]| v[0].cat(v[1]).cat(v[2]))
        }
        pub fn delim<'a>(
            open: impl Parser<'a, I<'a>, Tr, X<'a>> + Clone,
            body: impl Parser<'a, I<'a>, Tr, X<'a>> + Clone,
            close: impl Parser<'a, I<'a>, Tr, X<'a>> + Clone,
        ) -> impl Parser<'a, I<'a>, Tr, X<'a>> + Clone {
            body.delimited_by(open, close)
        }
        pub fn pad<'a>(
            body: impl Parser<'a, I<'a>, Tr, X<'a>> + Clone,
            padding: impl Parser<'a, I<'a>, Tr, X<'a>> + Clone,
        ) -> impl Parser<'a, I<'a>, Tr, X<'a>> + Clone {
            body.padded_by(padding)
        }

        // ---- choice / option / lookahead ------------------------------------------------------
        pub fn or<'a>(
            a: impl Parser<'a, I<'a>, Tr, X<'a>> + Clone,
            b: impl Parser<'a, I<'a>, Tr, X<'a>> + Clone,
        ) -> impl Parser<'a, I<'a>, Tr, X<'a>> + Clone {
            a.or(b)
        }
        /// choice((a, b, c))
        pub fn or3<'a>(
            a: impl Parser<'a, I<'a>, Tr, X<'a>> + Clone,
            b: impl Parser<'a, I<'a>, Tr, X<'a>> + Clone,
            c: impl Parser<'a, I<'a>, Tr, X<'a>> + Clone,
        ) -> impl Parser<'a, I<'a>, Tr, X<'a>> + Clone {
            choice((a, b, c))
        }
        /// choice(vec![a, b, c]) over boxed alternatives (Choice<Vec<_>> -> Choice<&[_]>)
        pub fn or3_vec<'a>(
            a: impl Parser<'a, I<'a>, Tr, X<'a>> + Clone + 'a,
            b: impl Parser<'a, I<'a>, Tr, X<'a>> + Clone + 'a,
            c: impl Parser<'a, I<'a>, Tr, X<'a>> + Clone + 'a,
        ) -> impl Parser<'a, I<'a>, Tr, X<'a>> + Clone {
            choice(vec![a.boxed(), b.boxed(), c.boxed()])
        }
        /// choice([a, b, c]) over boxed alternatives
        pub fn or3_arr<'a>(
            a: impl Parser<'a, I<'a>, Tr, X<'a>> + Clone + 'a,
            b: impl Parser<'a, I<'a>, Tr, X<'a>> + Clone + 'a,
            c: impl Parser<'a, I<'a>, Tr, X<'a>> + Clone + 'a,
        ) -> impl Parser<'a, I<'a>, Tr, X<'a>> + Clone {
            choice([a.boxed(), b.boxed(), c.boxed()])
        }
        pub fn ornot<'a>(
            a: impl Parser<'a, I<'a>, Tr, X<'a>> + Clone,
        ) -> impl Parser<'a, I<'a>, Tr, X<'a>> + Clone {
            a.or_not().map(|o: Option<Tr>| match o {
                Some(x) => x.tag(1),
                None => Tr::unit().tag(0),
            })
        }
        pub fn not_<'a>(
            a: impl Parser<'a, I<'a>, Tr, X<'a>> + Clone,
        ) -> impl Parser<'a, I<'a>, Tr, X<'a>> + Clone {
            a.not().map(|()| Tr::unit())
        }
        pub fn andis<'a>(
            a: impl Parser<'a, I<'a>, Tr, X<'a>> + Clone,
            b: impl Parser<'a, I<'a>, Tr, X<'a>> + Clone,
        ) -> impl Parser<'a, I<'a>, Tr, X<'a>> + Clone {
            a.and_is(b)
        }
        pub fn rew<'a>(
            a: impl Parser<'a, I<'a>, Tr, X<'a>> + Clone,
        ) -> impl Parser<'a, I<'a>, Tr, X<'a>> + Clone {
            a.rewind()
        }

        // ---- mapping --------------------------------------------------------------------------
        pub fn tag<'a>(
            k: u8,
            a: impl Parser<'a, I<'a>, Tr, X<'a>> + Clone,
        ) -> impl Parser<'a, I<'a>, Tr, X<'a>> + Clone {
            a.map(move |x: Tr| x.tag(k))
        }
        /// map_with: append the span of what the sub-parser consumed
        pub fn sp<'a>(
            a: impl Parser<'a, I<'a>, Tr, X<'a>> + Clone,
        ) -> impl Parser<'a, I<'a>, Tr, X<'a>> + Clone {
            a.map_with(|x: Tr, e| {
                let s: SimpleSpan = e.span();
                x.span(s.start, s.end)
            })
        }
        pub fn to_<'a>(
            a: impl Parser<'a, I<'a>, Tr, X<'a>> + Clone,
            c: u8,
        ) -> impl Parser<'a, I<'a>, Tr, X<'a>> + Clone {
            a.to(Tr::tok(c))
        }
        pub fn ign<'a>(
            a: impl Parser<'a, I<'a>, Tr, X<'a>> + Clone,
        ) -> impl Parser<'a, I<'a>, Tr, X<'a>> + Clone {
            a.ignored().map(|()| Tr::unit())
        }
        pub fn filt<'a>(
            a: impl Parser<'a, I<'a>, Tr, X<'a>> + Clone,
            th: u8,
        ) -> impl Parser<'a, I<'a>, Tr, X<'a>> + Clone {
            a.filter(move |x: &Tr| x.low() > th)
        }
        pub fn tmap<'a>(
            a: impl Parser<'a, I<'a>, Tr, X<'a>> + Clone,
            th: u8,
        ) -> impl Parser<'a, I<'a>, Tr, X<'a>> + Clone {
            a.try_map(move |x: Tr, span: SimpleSpan| {
                if x.low() > th {
                    Ok(x.tag(7))
                } else {
                    Err(<$E as MkErr>::user(span))
                }
            })
        }
        pub fn tmapw<'a>(
            a: impl Parser<'a, I<'a>, Tr, X<'a>> + Clone,
            th: u8,
        ) -> impl Parser<'a, I<'a>, Tr, X<'a>> + Clone {
            a.try_map_with(move |x: Tr, e| {
                if x.low() > th {
                    Ok(x.tag(7))
                } else {
                    Err(<$E as MkErr>::user(e.span()))
                }
            })
        }

        // ---- repetition -----------------------------------------------------------------------
        pub fn rep<'a>(
            a: impl Parser<'a, I<'a>, Tr, X<'a>> + Clone,
            lo: usize,
            hi: usize,
        ) -> impl Parser<'a, I<'a>, Tr, X<'a>> + Clone {
            a.repeated().at_least(lo).at_most(hi).collect::<Vec<Tr>>().map(|v: Vec<Tr>| Tr::list(&v))
        }
        pub fn rep_inf<'a>(
            a: impl Parser<'a, I<'a>, Tr, X<'a>> + Clone,
            lo: usize,
        ) -> impl Parser<'a, I<'a>, Tr, X<'a>> + Clone {
            a.repeated().at_least(lo).collect::<Vec<Tr>>().map(|v: Vec<Tr>| Tr::list(&v))
        }
        pub fn rep_exactly<'a>(
            a: impl Parser<'a, I<'a>, Tr, X<'a>> + Clone,
            n: usize,
        ) -> impl Parser<'a, I<'a>, Tr, X<'a>> + Clone {
            a.repeated().exactly(n).collect::<Vec<Tr>>().map(|v: Vec<Tr>| Tr::list(&v))
        }
        pub fn repcount<'a>(
            a: impl Parser<'a, I<'a>, Tr, X<'a>> + Clone,
            lo: usize,
            hi: usize,
        ) -> impl Parser<'a, I<'a>, Tr, X<'a>> + Clone {
            a.repeated().at_least(lo).at_most(hi).count().map(|n: usize| Tr::unit().push(0xC0 | (n as u8 & 0x0f)))
        }
        pub fn repcount_inf<'a>(
            a: impl Parser<'a, I<'a>, Tr, X<'a>> + Clone,
            lo: usize,
        ) -> impl Parser<'a, I<'a>, Tr, X<'a>> + Clone {
            a.repeated().at_least(lo).count().map(|n: usize| Tr::unit().push(0xC0 | (n as u8 & 0x0f)))
        }
        #[allow(clippy::too_many_arguments)]
        pub fn sep<'a>(
            item: impl Parser<'a, I<'a>, Tr, X<'a>> + Clone,
            separator: impl Parser<'a, I<'a>, Tr, X<'a>> + Clone,
            lo: usize,
            hi: usize,
            lead: bool,
            trail: bool,
        ) -> impl Parser<'a, I<'a>, Tr, X<'a>> + Clone {
            let s = item.separated_by(separator).at_least(lo).at_most(hi);
            let s = if lead { s.allow_leading() } else { s };
            let s = if trail { s.allow_trailing() } else { s };
            s.collect::<Vec<Tr>>().map(|v: Vec<Tr>| Tr::list(&v))
        }
        pub fn sep_inf<'a>(
            item: impl Parser<'a, I<'a>, Tr, X<'a>> + Clone,
            separator: impl Parser<'a, I<'a>, Tr, X<'a>> + Clone,
            lo: usize,
            lead: bool,
            trail: bool,
        ) -> impl Parser<'a, I<'a>, Tr, X<'a>> + Clone {
            let s = item.separated_by(separator).at_least(lo);
            let s = if lead { s.allow_leading() } else { s };
            let s = if trail { s.allow_trailing() } else { s };
            s.collect::<Vec<Tr>>().map(|v: Vec<Tr>| Tr::list(&v))
        }
        pub fn rep_unit<'a>(
            a: impl Parser<'a, I<'a>, Tr, X<'a>> + Clone,
            lo: usize,
            hi: usize,
        ) -> impl Parser<'a, I<'a>, Tr, X<'a>> + Clone {
            a.repeated().at_least(lo).at_most(hi).to_slice().map(|s: &[u8]| Tr::unit().push(0xC0 | (s.len() as u8 & 0x0f)))
        }
        /// unbounded: with lo == 0 this takes the fast loop of `Repeated::go`, otherwise the counted path
        pub fn rep_unit_inf<'a>(
            a: impl Parser<'a, I<'a>, Tr, X<'a>> + Clone,
            lo: usize,
        ) -> impl Parser<'a, I<'a>, Tr, X<'a>> + Clone {
            a.repeated().at_least(lo).to_slice().map(|s: &[u8]| Tr::unit().push(0xC0 | (s.len() as u8 & 0x0f)))
        }
        #[allow(clippy::too_many_arguments)]
        pub fn sep_unit<'a>(
            item: impl Parser<'a, I<'a>, Tr, X<'a>> + Clone,
            separator: impl Parser<'a, I<'a>, Tr, X<'a>> + Clone,
            lo: usize,
            hi: usize,
            lead: bool,
            trail: bool,
        ) -> impl Parser<'a, I<'a>, Tr, X<'a>> + Clone {
            let s = item.separated_by(separator).at_least(lo).at_most(hi);
            let s = if lead { s.allow_leading() } else { s };
            let s = if trail { s.allow_trailing() } else { s };
            s.to_slice().map(|s: &[u8]| Tr::unit().push(0xC0 | (s.len() as u8 & 0x0f)))
        }
        #[allow(clippy::too_many_arguments)]
        pub fn sep_count<'a>(
            item: impl Parser<'a, I<'a>, Tr, X<'a>> + Clone,
            separator: impl Parser<'a, I<'a>, Tr, X<'a>> + Clone,
            lo: usize,
            hi: usize,
            lead: bool,
            trail: bool,
        ) -> impl Parser<'a, I<'a>, Tr, X<'a>> + Clone {
            let s = item.separated_by(separator).at_least(lo).at_most(hi);
            let s = if lead { s.allow_leading() } else { s };
            let s = if trail { s.allow_trailing() } else { s };
            s.count().map(|n: usize| Tr::unit().push(0xC0 | (n as u8 & 0x0f)))
        }
        pub fn collect_ex2<'a>(
            a: impl Parser<'a, I<'a>, Tr, X<'a>> + Clone,
        ) -> impl Parser<'a, I<'a>, Tr, X<'a>> + Clone {
            a.repeated().collect_exactly::<[Tr; 2]>().map(|v: [Tr; 2]| Tr::list(&v))
        }
        pub fn collect_ex2b<'a>(
            a: impl Parser<'a, I<'a>, Tr, X<'a>> + Clone,
            hi: usize,
        ) -> impl Parser<'a, I<'a>, Tr, X<'a>> + Clone {
            a.repeated().at_most(hi).collect_exactly::<[Tr; 2]>().map(|v: [Tr; 2]| Tr::list(&v))
        }
        pub fn enum_<'a>(
            a: impl Parser<'a, I<'a>, Tr, X<'a>> + Clone,
            lo: usize,
            hi: usize,
        ) -> impl Parser<'a, I<'a>, Tr, X<'a>> + Clone {
            a.repeated().at_least(lo).at_most(hi).enumerate().collect::<Vec<(usize, Tr)>>().map(|v: Vec<(usize, Tr)>| {
                let mut t = Tr::unit().push(0xC0 | (v.len() as u8 & 0x0f));
                let mut i = 0;
                while i < v.len() {
                    t = t.cat(v[i].1.push(v[i].0 as u8));
                    i += 1;
                }
                t
            })
        }
        pub fn lazy_<'a>(
            a: impl Parser<'a, I<'a>, Tr, X<'a>> + Clone,
        ) -> impl Parser<'a, I<'a>, Tr, X<'a>> + Clone {
            a.lazy()
        }
        /// any().repeated() used as a unit parser (the unbounded fast loop), observed through to_slice
        pub fn rest<'a>() -> impl Parser<'a, I<'a>, Tr, X<'a>> + Clone {
            any::<I<'a>, X<'a>>()
                .repeated()
                .to_slice()
                .map(|s: &[u8]| Tr::unit().push(0xC0 | (s.len() as u8 & 0x0f)))
        }
        pub fn foldl_<'a>(
            a: impl Parser<'a, I<'a>, Tr, X<'a>> + Clone,
            b: impl Parser<'a, I<'a>, Tr, X<'a>> + Clone,
        ) -> impl Parser<'a, I<'a>, Tr, X<'a>> + Clone {
            a.foldl(b.repeated(), |acc: Tr, y: Tr| acc.cat(y).tag(3))
        }
        pub fn foldr_<'a>(
            a: impl Parser<'a, I<'a>, Tr, X<'a>> + Clone,
            b: impl Parser<'a, I<'a>, Tr, X<'a>> + Clone,
        ) -> impl Parser<'a, I<'a>, Tr, X<'a>> + Clone {
            a.repeated().foldr(b, |x: Tr, acc: Tr| x.cat(acc).tag(4))
        }

        // ---- non-fatal errors / recovery ------------------------------------------------------
        pub fn val<'a>(
            a: impl Parser<'a, I<'a>, Tr, X<'a>> + Clone,
            id: u8,
        ) -> impl Parser<'a, I<'a>, Tr, X<'a>> + Clone {
            a.validate(move |x: Tr, e, emitter| {
                // `emit_weight(id)` copies: the surviving subset of emitters is then visible in the length
                // of the reported error list (cheap for the solver), see refsem::emit_weight
                let mut k = 0;
                while k < $crate::refsem::emit_weight(id) {
                    emitter.emit(<$E as MkErr>::emitted(id, e.span()));
                    k += 1;
                }
                x
            })
        }
        pub fn rec_via<'a>(
            a: impl Parser<'a, I<'a>, Tr, X<'a>> + Clone,
            f: impl Parser<'a, I<'a>, Tr, X<'a>> + Clone,
        ) -> impl Parser<'a, I<'a>, Tr, X<'a>> + Clone {
            a.recover_with(via_parser(f))
        }
        pub fn rec_skip_until<'a>(
            a: impl Parser<'a, I<'a>, Tr, X<'a>> + Clone,
            skip: impl Parser<'a, I<'a>, Tr, X<'a>> + Clone,
            until: impl Parser<'a, I<'a>, Tr, X<'a>> + Clone,
        ) -> impl Parser<'a, I<'a>, Tr, X<'a>> + Clone {
            a.recover_with(skip_until(skip.ignored(), until.ignored(), || Tr::tok(0xFB)))
        }
        pub fn rec_skip_retry<'a>(
            a: impl Parser<'a, I<'a>, Tr, X<'a>> + Clone,
            skip: impl Parser<'a, I<'a>, Tr, X<'a>> + Clone,
            until: impl Parser<'a, I<'a>, Tr, X<'a>> + Clone,
        ) -> impl Parser<'a, I<'a>, Tr, X<'a>> + Clone {
            a.recover_with(skip_then_retry_until(skip.ignored(), until.ignored()))
        }
        // ---- value-building formulations of the output-eliding combinators (C04 pairs) -----------
        pub fn then_snd<'a>(
            a: impl Parser<'a, I<'a>, Tr, X<'a>> + Clone,
            b: impl Parser<'a, I<'a>, Tr, X<'a>> + Clone,
        ) -> impl Parser<'a, I<'a>, Tr, X<'a>> + Clone {
            a.then(b).map(|(_, y): (Tr, Tr)| y)
        }
        pub fn then_fst<'a>(
            a: impl Parser<'a, I<'a>, Tr, X<'a>> + Clone,
            b: impl Parser<'a, I<'a>, Tr, X<'a>> + Clone,
        ) -> impl Parser<'a, I<'a>, Tr, X<'a>> + Clone {
            a.then(b).map(|(x, _): (Tr, Tr)| x)
        }
        pub fn map_unit<'a>(
            a: impl Parser<'a, I<'a>, Tr, X<'a>> + Clone,
        ) -> impl Parser<'a, I<'a>, Tr, X<'a>> + Clone {
            a.map(|_: Tr| Tr::unit())
        }
        pub fn map_to<'a>(
            a: impl Parser<'a, I<'a>, Tr, X<'a>> + Clone,
            c: u8,
        ) -> impl Parser<'a, I<'a>, Tr, X<'a>> + Clone {
            a.map(move |_: Tr| Tr::tok(c))
        }
        pub fn to_span_<'a>(
            a: impl Parser<'a, I<'a>, Tr, X<'a>> + Clone,
        ) -> impl Parser<'a, I<'a>, Tr, X<'a>> + Clone {
            a.to_span().map(|s: SimpleSpan| Tr::unit().span(s.start, s.end))
        }
        pub fn sp_only<'a>(
            a: impl Parser<'a, I<'a>, Tr, X<'a>> + Clone,
        ) -> impl Parser<'a, I<'a>, Tr, X<'a>> + Clone {
            a.map_with(|_: Tr, e| {
                let s: SimpleSpan = e.span();
                Tr::unit().span(s.start, s.end)
            })
        }
        pub fn to_slice_len<'a>(
            a: impl Parser<'a, I<'a>, Tr, X<'a>> + Clone,
        ) -> impl Parser<'a, I<'a>, Tr, X<'a>> + Clone {
            a.to_slice().map(|s: &[u8]| Tr::unit().push(0xC0 | (s.len() as u8 & 0x0f)))
        }
        pub fn sl_len<'a>(
            a: impl Parser<'a, I<'a>, Tr, X<'a>> + Clone,
        ) -> impl Parser<'a, I<'a>, Tr, X<'a>> + Clone {
            a.map_with(|_: Tr, e| {
                let s: SimpleSpan = e.span();
                Tr::unit().push(0xC0 | ((s.end - s.start) as u8 & 0x0f))
            })
        }
        pub fn bx<'a>(
            a: impl Parser<'a, I<'a>, Tr, X<'a>> + Clone + 'a,
        ) -> impl Parser<'a, I<'a>, Tr, X<'a>> + Clone {
            a.boxed()
        }
    };
}

pub mod pe {
    crate::prims!(chumsky::error::EmptyErr);
}
pub mod pc {
    crate::prims!(chumsky::error::Cheap);
}
pub mod pt {
    crate::prims!(crate::errs::TagErr);
}
pub mod pb {
    crate::prims!(crate::errs::BitErr);
}
