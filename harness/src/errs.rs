//! Error types used by the harnesses.
//!
//! `TagErr`  — small (id + span): `validate` emissions carry a distinct id, so `ParseResult::errors()` is a
//!             sequence of ids (C05, C08, C16).
//! `BitErr`  — span + found + expected *set as a bit mask* + custom flag + label/context/marker bookkeeping.
//!             Its `merge` is an exact set union, so chumsky's error *routing* (which errors are merged,
//!             replaced, kept, relabelled) is observable without `Rich`'s heap structures, which CBMC cannot
//!             run (DESIGN section 1). Stands for "an error type whose merge is set union".

use chumsky::error::{Cheap, EmptyErr, Error, LabelError, Simple};
use chumsky::input::Input;
use chumsky::span::SimpleSpan;
use chumsky::util::MaybeRef;
use chumsky::DefaultExpected;

use crate::refsem::{xbit, X_ANY, X_ELSE, X_END};

/// Construction of user-supplied errors in `try_map` / `custom` / `validate` closures.
pub trait MkErr: Sized {
    /// an error a user closure returns (try_map / custom)
    fn user(span: SimpleSpan) -> Self;
    /// an error a `validate` closure emits
    fn emitted(id: u8, span: SimpleSpan) -> Self;
    fn start(&self) -> usize;
    fn end(&self) -> usize;
    /// validate id, 0xEE for parser-made errors, 0xDD for `user`
    fn id(&self) -> u8;
}

impl MkErr for EmptyErr {
    fn user(_: SimpleSpan) -> Self {
        EmptyErr::default()
    }
    fn emitted(_: u8, _: SimpleSpan) -> Self {
        EmptyErr::default()
    }
    fn start(&self) -> usize {
        0
    }
    fn end(&self) -> usize {
        0
    }
    fn id(&self) -> u8 {
        0
    }
}

impl MkErr for Cheap {
    fn user(span: SimpleSpan) -> Self {
        Cheap::new(span)
    }
    fn emitted(_: u8, span: SimpleSpan) -> Self {
        Cheap::new(span)
    }
    fn start(&self) -> usize {
        self.span().start
    }
    fn end(&self) -> usize {
        self.span().end
    }
    fn id(&self) -> u8 {
        0
    }
}

impl<'a> MkErr for Simple<'a, u8> {
    fn user(span: SimpleSpan) -> Self {
        Simple::new(None, span)
    }
    fn emitted(_: u8, span: SimpleSpan) -> Self {
        Simple::new(None, span)
    }
    fn start(&self) -> usize {
        self.span().start
    }
    fn end(&self) -> usize {
        self.span().end
    }
    fn id(&self) -> u8 {
        0
    }
}

// ------------------------------------------------------------------------------------------------------

#[derive(Copy, Clone, PartialEq, Eq, Debug)]
pub struct TagErr {
    pub id: u8,
    pub start: usize,
    pub end: usize,
}

impl<'a, I: Input<'a, Span = SimpleSpan>> Error<'a, I> for TagErr {}

impl<'a, I: Input<'a, Span = SimpleSpan>, L> LabelError<'a, I, L> for TagErr {
    #[inline]
    fn expected_found<E: IntoIterator<Item = L>>(
        _expected: E,
        _found: Option<MaybeRef<'a, I::Token>>,
        span: SimpleSpan,
    ) -> Self {
        TagErr { id: 0xEE, start: span.start, end: span.end }
    }
}

impl MkErr for TagErr {
    fn user(span: SimpleSpan) -> Self {
        TagErr { id: 0xDD, start: span.start, end: span.end }
    }
    fn emitted(id: u8, span: SimpleSpan) -> Self {
        TagErr { id, start: span.start, end: span.end }
    }
    fn start(&self) -> usize {
        self.start
    }
    fn end(&self) -> usize {
        self.end
    }
    fn id(&self) -> u8 {
        self.id
    }
}

// ------------------------------------------------------------------------------------------------------

/// Label type for `labelled(..)` in the harnesses (a small number).
#[derive(Copy, Clone, PartialEq, Eq, Debug)]
pub struct Lbl(pub u8);

pub const X_LABEL0: u32 = 1 << 20;

#[derive(Copy, Clone, PartialEq, Eq, Debug)]
pub struct BitErr {
    pub start: usize,
    pub end: usize,
    pub found: Option<u8>,
    /// bits 0..15: token (value & 15) expected; 16 any; 17 something else; 18 end; 20.. labels
    pub exp: u32,
    /// produced by user code (try_map / custom)
    pub custom: bool,
    /// number of `in_context` calls, and the last one
    pub ctx_n: u8,
    pub ctx_label: u8,
    pub ctx_start: usize,
    pub ctx_end: usize,
    /// set by the `map_err` closures of the C17 harnesses
    pub marker: u8,
    pub id: u8,
}

impl BitErr {
    pub fn blank(span: SimpleSpan) -> Self {
        BitErr {
            start: span.start,
            end: span.end,
            found: None,
            exp: 0,
            custom: false,
            ctx_n: 0,
            ctx_label: 0,
            ctx_start: 0,
            ctx_end: 0,
            marker: 0,
            id: 0xEE,
        }
    }
}

impl<'a, I: Input<'a, Token = u8, Span = SimpleSpan>> Error<'a, I> for BitErr {
    #[inline]
    fn merge(mut self, other: Self) -> Self {
        // exact set union; everything positional is kept from `self` (as Rich does)
        self.exp |= other.exp;
        self.custom |= other.custom;
        self.marker |= other.marker;
        self
    }
}

impl<'a, I: Input<'a, Token = u8, Span = SimpleSpan>> LabelError<'a, I, DefaultExpected<'a, u8>>
    for BitErr
{
    #[inline]
    fn expected_found<E: IntoIterator<Item = DefaultExpected<'a, u8>>>(
        expected: E,
        found: Option<MaybeRef<'a, u8>>,
        span: SimpleSpan,
    ) -> Self {
        let mut exp = 0u32;
        for e in expected {
            exp |= match e {
                DefaultExpected::Token(t) => xbit(*t),
                DefaultExpected::Any => X_ANY,
                DefaultExpected::SomethingElse => X_ELSE,
                DefaultExpected::EndOfInput => X_END,
                _ => 0,
            };
        }
        let mut e = BitErr::blank(span);
        e.exp = exp;
        e.found = found.map(|f| *f);
        e
    }
}

impl<'a, I: Input<'a, Token = u8, Span = SimpleSpan>> LabelError<'a, I, Lbl> for BitErr {
    #[inline]
    fn expected_found<E: IntoIterator<Item = Lbl>>(
        expected: E,
        found: Option<MaybeRef<'a, u8>>,
        span: SimpleSpan,
    ) -> Self {
        let mut exp = 0u32;
        for l in expected {
            exp |= X_LABEL0 << (l.0 & 7);
        }
        let mut e = BitErr::blank(span);
        e.exp = exp;
        e.found = found.map(|f| *f);
        e
    }
    #[inline]
    fn label_with(&mut self, label: Lbl) {
        self.exp = X_LABEL0 << (label.0 & 7);
    }
    #[inline]
    fn in_context(&mut self, label: Lbl, span: SimpleSpan) {
        self.ctx_n = self.ctx_n.wrapping_add(1);
        self.ctx_label = label.0;
        self.ctx_start = span.start;
        self.ctx_end = span.end;
    }
}

impl MkErr for BitErr {
    fn user(span: SimpleSpan) -> Self {
        let mut e = BitErr::blank(span);
        e.custom = true;
        e.id = 0xDD;
        e
    }
    fn emitted(id: u8, span: SimpleSpan) -> Self {
        let mut e = BitErr::blank(span);
        e.id = id;
        e
    }
    fn start(&self) -> usize {
        self.start
    }
    fn end(&self) -> usize {
        self.end
    }
    fn id(&self) -> u8 {
        self.id
    }
}
