//! Error types used by the harnesses.
//!
//! `TagErr`  — small (id + span): `validate` emissions carry a distinct id, so `ParseResult::errors()` is a
//!             sequence of ids (C05, C08, C16).
//! `BitErr`  — span + found + expected *set as a bit mask* + custom flag + label/context/marker bookkeeping.
//!             Its `merge` is an exact set union, so chumsky's error *routing* (which errors are merged,
//!             replaced, kept, relabelled) is observable without `Rich`'s heap structures, which CBMC cannot
//!             run (DESIGN section 1). Stands for "an error type whose merge is set union".

use chumsky::error::{Cheap, EmptyErr, Error, LabelError, Simple};
use chumsky::input::Input;
use chumsky::span::SimpleSpan;
use chumsky::util::MaybeRef;
use chumsky::DefaultExpected;

use crate::refsem::{xbit, X_ANY, X_ELSE, X_END};

/// Construction of user-supplied errors in `try_map` / `custom` / `validate` closures.
pub trait MkErr: Sized {
    /// an error a user closure returns (try_map / custom)
    fn user(span: SimpleSpan) -> Self;
    /// an error a `validate` closure emits
    fn emitted(id: u8, span: SimpleSpan) -> Self;
    fn start(&self) -> usize;
    fn end(&self) -> usize;
    /// validate id, 0xEE for parser-made errors, 0xDD for `user`
    fn id(&self) -> u8;
}

impl MkErr for EmptyErr {
    fn user(_: SimpleSpan) -> Self {
        EmptyErr::default()
    }
    fn emitted(_: u8, _: SimpleSpan) -> Self {
        EmptyErr::default()
    }
    fn start(&self) -> usize {
        0
    }
    fn end(&self) -> usize {
        0
    }
    fn id(&self) -> u8 {
        0
    }
}

impl MkErr for Cheap {
    fn user(span: SimpleSpan) -> Self {
        Cheap::new(span)
    }
    fn emitted(_: u8, span: SimpleSpan) -> Self {
        Cheap::new(span)
    }
    fn start(&self) -> usize {
        self.span().start
    }
    fn end(&self) -> usize {
        self.span().end
    }
    fn id(&self) -> u8 {
        0
    }
}

impl<'a> MkErr for Simple<'a, u8> {
    fn user(span: SimpleSpan) -> Self {
        Simple::new(None, span)
    }
    fn emitted(_: u8, span: SimpleSpan) -> Self {
        Simple::new(None, span)
    }
    fn start(&self) -> usize {
        self.span().start
    }
    fn end(&self) -> usize {
        self.span().end
    }
    fn id(&self) -> u8 {
        0
    }
}

// ------------------------------------------------------------------------------------------------------
// NOTE on representation. Both harness error types are single packed scalars (`u64` / `u128`). Measured: reading
// one field of a 3-field struct error (`{u8, usize, usize}`, padding bytes) out of `ParseResult::errors()` costs
// CBMC 80-100 s and 5 GB, and > 15 GB for two errors, because every error travels through three heap `Vec`s inside
// chumsky (Emitter -> Located secondary list -> collected result) and padded structs are copied byte-wise; the
// same content as one scalar costs 7-14 s. This is a property of the harness' error type only.

/// id (bits 0..8) | start (8..24) | end (24..40)
#[derive(Copy, Clone, PartialEq, Eq, Debug)]
pub struct TagErr(pub u64);

impl TagErr {
    #[inline(always)]
    pub fn new(id: u8, span: SimpleSpan) -> Self {
        TagErr((id as u64) | ((span.start as u64 & 0xffff) << 8) | ((span.end as u64 & 0xffff) << 24))
    }
}

impl<'a, I: Input<'a, Span = SimpleSpan>> Error<'a, I> for TagErr {}

impl<'a, I: Input<'a, Span = SimpleSpan>, L> LabelError<'a, I, L> for TagErr {
    #[inline]
    fn expected_found<E: IntoIterator<Item = L>>(
        _expected: E,
        _found: Option<MaybeRef<'a, I::Token>>,
        span: SimpleSpan,
    ) -> Self {
        TagErr::new(0xEE, span)
    }
}

impl MkErr for TagErr {
    fn user(span: SimpleSpan) -> Self {
        TagErr::new(0xDD, span)
    }
    fn emitted(id: u8, span: SimpleSpan) -> Self {
        TagErr::new(id, span)
    }
    fn start(&self) -> usize {
        ((self.0 >> 8) & 0xffff) as usize
    }
    fn end(&self) -> usize {
        ((self.0 >> 24) & 0xffff) as usize
    }
    fn id(&self) -> u8 {
        self.0 as u8
    }
}

// ------------------------------------------------------------------------------------------------------

/// Label type for `labelled(..)` in the harnesses (a small number).
#[derive(Copy, Clone, PartialEq, Eq, Debug)]
pub struct Lbl(pub u8);

pub const X_LABEL0: u32 = 1 << 20;

/// Packed layout (u128):
///   0..8 start | 8..16 end | 16..24 found token | 24 found present | 25 custom (made by user code) |
///   26..58 expected set (bits 0..15: token value & 15; 16 any; 17 something else; 18 end of input; 20..28 labels) |
///   58..60 number of `in_context` calls (saturating at 3) | 60..64 last context label |
///   64..72 last context span start | 72..80 last context span end | 80..88 marker (set by map_err closures) |
///   88..96 id (validate id, 0xEE parser-made, 0xDD user)
#[derive(Copy, Clone, PartialEq, Eq, Debug)]
pub struct BitErr(pub u128);

const S_END: u32 = 8;
const S_FOUND: u32 = 16;
const S_FOUNDP: u32 = 24;
const S_CUSTOM: u32 = 25;
const S_EXP: u32 = 26;
const S_CTXN: u32 = 58;
const S_CTXL: u32 = 60;
const S_CTXS: u32 = 64;
const S_CTXE: u32 = 72;
const S_MARK: u32 = 80;
const S_ID: u32 = 88;
/// what `merge` unions: expected set, custom flag, marker
const MERGE_MASK: u128 = ((0xffff_ffffu128) << S_EXP) | (1u128 << S_CUSTOM) | (0xffu128 << S_MARK);

impl BitErr {
    #[inline(always)]
    pub fn blank(span: SimpleSpan) -> Self {
        BitErr((span.start as u128 & 0xff) | ((span.end as u128 & 0xff) << S_END) | (0xEEu128 << S_ID))
    }
    #[inline(always)]
    pub fn found(&self) -> Option<u8> {
        if (self.0 >> S_FOUNDP) & 1 == 1 {
            Some((self.0 >> S_FOUND) as u8)
        } else {
            None
        }
    }
    #[inline(always)]
    pub fn with_found(mut self, f: Option<u8>) -> Self {
        if let Some(t) = f {
            self.0 |= ((t as u128) << S_FOUND) | (1u128 << S_FOUNDP);
        }
        self
    }
    #[inline(always)]
    pub fn exp(&self) -> u32 {
        (self.0 >> S_EXP) as u32
    }
    #[inline(always)]
    pub fn set_exp(&mut self, e: u32) {
        self.0 = (self.0 & !((0xffff_ffffu128) << S_EXP)) | ((e as u128) << S_EXP);
    }
    #[inline(always)]
    pub fn custom(&self) -> bool {
        (self.0 >> S_CUSTOM) & 1 == 1
    }
    #[inline(always)]
    pub fn ctx_n(&self) -> u8 {
        ((self.0 >> S_CTXN) & 3) as u8
    }
    #[inline(always)]
    pub fn ctx_label(&self) -> u8 {
        ((self.0 >> S_CTXL) & 0xf) as u8
    }
    #[inline(always)]
    pub fn ctx_start(&self) -> usize {
        ((self.0 >> S_CTXS) & 0xff) as usize
    }
    #[inline(always)]
    pub fn ctx_end(&self) -> usize {
        ((self.0 >> S_CTXE) & 0xff) as usize
    }
    #[inline(always)]
    pub fn marker(&self) -> u8 {
        (self.0 >> S_MARK) as u8
    }
    #[inline(always)]
    pub fn with_marker(mut self, m: u8) -> Self {
        self.0 |= (m as u128) << S_MARK;
        self
    }
}

impl<'a, I: Input<'a, Token = u8, Span = SimpleSpan>> Error<'a, I> for BitErr {
    #[inline]
    fn merge(mut self, other: Self) -> Self {
        // exact set union; everything positional is kept from `self` (as Rich does)
        self.0 |= other.0 & MERGE_MASK;
        self
    }
}

impl<'a, I: Input<'a, Token = u8, Span = SimpleSpan>> LabelError<'a, I, DefaultExpected<'a, u8>>
    for BitErr
{
    #[inline]
    fn expected_found<E: IntoIterator<Item = DefaultExpected<'a, u8>>>(
        expected: E,
        found: Option<MaybeRef<'a, u8>>,
        span: SimpleSpan,
    ) -> Self {
        let mut exp = 0u32;
        for e in expected {
            exp |= match e {
                DefaultExpected::Token(t) => xbit(*t),
                DefaultExpected::Any => X_ANY,
                DefaultExpected::SomethingElse => X_ELSE,
                DefaultExpected::EndOfInput => X_END,
                _ => 0,
            };
        }
        let mut e = BitErr::blank(span).with_found(found.map(|f| *f));
        e.set_exp(exp);
        e
    }
}

impl<'a, I: Input<'a, Token = u8, Span = SimpleSpan>> LabelError<'a, I, Lbl> for BitErr {
    #[inline]
    fn expected_found<E: IntoIterator<Item = Lbl>>(
        expected: E,
        found: Option<MaybeRef<'a, u8>>,
        span: SimpleSpan,
    ) -> Self {
        let mut exp = 0u32;
        for l in expected {
            exp |= X_LABEL0 << (l.0 & 7);
        }
        let mut e = BitErr::blank(span).with_found(found.map(|f| *f));
        e.set_exp(exp);
        e
    }
    #[inline]
    fn label_with(&mut self, label: Lbl) {
        self.set_exp(X_LABEL0 << (label.0 & 7));
    }
    #[inline]
    fn in_context(&mut self, label: Lbl, span: SimpleSpan) {
        let n = self.ctx_n();
        let n2 = if n < 3 { n + 1 } else { 3 };
        let clear = !((3u128 << S_CTXN) | (0xfu128 << S_CTXL) | (0xffu128 << S_CTXS) | (0xffu128 << S_CTXE));
        self.0 = (self.0 & clear)
            | ((n2 as u128) << S_CTXN)
            | (((label.0 & 0xf) as u128) << S_CTXL)
            | ((span.start as u128 & 0xff) << S_CTXS)
            | ((span.end as u128 & 0xff) << S_CTXE);
    }
}

impl MkErr for BitErr {
    fn user(span: SimpleSpan) -> Self {
        let mut e = BitErr::blank(span);
        e.0 = (e.0 & !(0xffu128 << S_ID)) | (0xDDu128 << S_ID) | (1u128 << S_CUSTOM);
        e
    }
    fn emitted(id: u8, span: SimpleSpan) -> Self {
        let mut e = BitErr::blank(span);
        e.0 = (e.0 & !(0xffu128 << S_ID)) | ((id as u128) << S_ID);
        e
    }
    fn start(&self) -> usize {
        (self.0 & 0xff) as usize
    }
    fn end(&self) -> usize {
        ((self.0 >> S_END) & 0xff) as usize
    }
    fn id(&self) -> u8 {
        (self.0 >> S_ID) as u8
    }
}
