//! Reference semantics: a small PEG interpreter over a grammar AST, written from the property statements
//! (C01, C02, C05, C06, C08), executed symbolically by the same solver query as the real chumsky parser.
//!
//! `eval(g, pos, env)` returns `Some((digest, end))` when `g` matches `env.inp[pos..end]` under the PEG
//! reading (left to right, first succeeding alternative wins and is never revisited, lookahead consumes
//! nothing, repetition greedy and possessive, a rejecting filter/try_map is a failure of that sub-parser).
//! In `env` it maintains
//!   * `emis`  — the non-fatal errors emitted along the surviving path (rolled back exactly where the PEG
//!               reading abandons a path),
//!   * `far`   — the furthest primitive failure and the union of what was expected there.
//!
//! Token parameters of the grammar are indices into `env.t` (symbolic values chosen by the solver).

use crate::obs::Tr;

pub const X_ANY: u32 = 1 << 16;
pub const X_ELSE: u32 = 1 << 17;
pub const X_END: u32 = 1 << 18;
pub const X_NONE: u32 = 0;

/// Bit standing for "token value `v` was expected" (lossy by design: `v & 15`).
#[inline(always)]
pub fn xbit(v: u8) -> u32 {
    1u32 << (v & 15)
}

#[derive(Copy, Clone)]
pub enum Cnt {
    K(u8),
    /// parameter index: the value `env.t[i]`
    P(u8),
    Inf,
}

#[derive(Copy, Clone)]
pub enum G {
    // ---- primitives -------------------------------------------------------------------------
    Just(u8),
    Just2(u8, u8),
    Any,
    OneOf2(u8, u8),
    NoneOf1(u8),
    /// select: accepts a token `> t[i]`, outputs it
    Select(u8),
    End,
    Empty,
    /// custom: reads two tokens, succeeds iff both exist and the second equals `t[i]`; output = both tokens
    Custom2(u8),
    // ---- sequencing --------------------------------------------------------------------------
    Then(&'static G, &'static G),
    IgnoreThen(&'static G, &'static G),
    ThenIgnore(&'static G, &'static G),
    Seq3(&'static G, &'static G, &'static G),
    Delim(&'static G, &'static G, &'static G),
    Pad(&'static G, &'static G),
    // ---- choice / option / lookahead ---------------------------------------------------------
    Or(&'static G, &'static G),
    Or3(&'static G, &'static G, &'static G),
    /// output: inner digest tagged 1, or unit tagged 0
    OrNot(&'static G),
    Not(&'static G),
    AndIs(&'static G, &'static G),
    Rewind(&'static G),
    // ---- mapping -----------------------------------------------------------------------------
    Tag(u8, &'static G),
    Span(&'static G),
    /// to(tok(c)) with a constant marker c
    To(&'static G, u8),
    Ignored(&'static G),
    /// accept iff `digest.low() > t[i]`
    Filter(&'static G, u8),
    /// accept iff `digest.low() > t[i]`, tag 7; rejection = user error at the START of the match
    TryMap(&'static G, u8),
    /// same, rejection = user error at the END of the match (try_map_with)
    TryMapWith(&'static G, u8),
    // ---- repetition --------------------------------------------------------------------------
    /// repeated().at_least(lo).at_most(hi): output list digest
    Rep(&'static G, Cnt, Cnt),
    /// same, output = count only
    RepCount(&'static G, Cnt, Cnt),
    /// item, separator, lo, hi, allow_leading (bool param or const), allow_trailing
    Sep(&'static G, &'static G, Cnt, Cnt, Flag, Flag),
    /// repeated().at_least(lo).at_most(hi) used as a unit parser (`Parser<()>` impl), observed through
    /// to_slice: output = number of tokens consumed
    RepUnit(&'static G, Cnt, Cnt),
    /// separated_by(..) used as a unit parser, observed through to_slice
    SepUnit(&'static G, &'static G, Cnt, Cnt, Flag, Flag),
    /// separated_by(..).count()
    SepCount(&'static G, &'static G, Cnt, Cnt, Flag, Flag),
    /// repeated().collect_exactly::<[_; 2]>(): exactly two items are taken (a third is left unconsumed)
    CollectEx2(&'static G),
    /// repeated().at_most(hi).collect_exactly::<[_; 2]>(): at most `hi` items are taken, exactly two are needed
    CollectEx2B(&'static G, Cnt),
    /// repeated().at_least(lo).at_most(hi).enumerate().collect(): every item followed by its index
    Enum(&'static G, Cnt, Cnt),
    /// `a.lazy()`: a, then anything
    Lazy(&'static G),
    /// any().repeated() — consumes everything; output = count marker
    Rest,
    /// foldl(a, b.repeated()): non-commutative fold `acc = acc.cat(item).tag(3)`
    Foldl(&'static G, &'static G),
    /// foldr(a.repeated(), b): `acc = item.cat(acc).tag(4)`
    Foldr(&'static G, &'static G),
    // ---- non-fatal errors / recovery ---------------------------------------------------------
    /// validate: emits error `id` spanning the match, output unchanged
    Validate(&'static G, u8),
    /// a.recover_with(via_parser(f))
    RecVia(&'static G, &'static G),
    /// a.recover_with(skip_until(skip, until, || fallback)) ; fallback digest = tok(0xFB)
    RecSkipUntil(&'static G, &'static G, &'static G),
    /// a.recover_with(skip_then_retry_until(skip, until))
    RecSkipRetry(&'static G, &'static G, &'static G),
}

#[derive(Copy, Clone)]
pub enum Flag {
    K(bool),
    /// parameter index: `env.t[i] & 1 == 1`
    P(u8),
}

pub const MAX_EMIS: usize = 6;

/// how many copies of its error a `validate` node with this id emits (ids 1..=4 -> 1, 2, 4, 8); recovered errors: 1
#[inline(always)]
pub const fn emit_weight(id: u8) -> usize {
    if id == 0xEE {
        1
    } else {
        1usize << ((id.wrapping_sub(1)) & 3)
    }
}

#[derive(Copy, Clone, PartialEq, Eq, Debug)]
pub struct Emi {
    /// 0xEE = recovered syntax error (span.start = furthest failure); otherwise validate id
    pub id: u8,
    pub start: u8,
    pub end: u8,
}

#[derive(Copy, Clone, Debug)]
pub struct Far {
    pub set: bool,
    pub pos: usize,
    pub exp: u32,
    /// a user-supplied error (try_map / custom) is part of the error at `pos`
    pub custom: bool,
}

pub struct Env<'a> {
    pub inp: &'a [u8],
    pub t: &'a [u8],
    pub emis: [Emi; MAX_EMIS],
    pub n_emis: usize,
    /// number of error VALUES the surviving emissions stand for: a `validate` node with id k emits
    /// `emit_weight(k)` copies (so that the surviving subset is visible in the LENGTH of the error list, which is
    /// cheap to read, see fam.rs); a recovered syntax error counts 1
    pub wsum: usize,
    pub far: Far,
    /// permissive-corner selector (see DESIGN 2.2): bit 0 = a trailing separator is consumed when
    /// `at_most` has been reached and `allow_trailing` is set; bit 1 = with zero items, a consumed
    /// leading separator stays consumed; bit 2 = a rejecting `try_map` supersedes the failures recorded inside the
    /// match it rejects (they are forgotten and the user's error is filed at the start of the match).
    pub perm: u8,
    /// set when an emission did not fit (`MAX_EMIS`): the comparison is then skipped, never failed
    pub overflow: bool,
}

impl<'a> Env<'a> {
    pub fn new(inp: &'a [u8], t: &'a [u8]) -> Self {
        Env {
            inp,
            t,
            emis: [Emi { id: 0, start: 0, end: 0 }; MAX_EMIS],
            n_emis: 0,
            wsum: 0,
            far: Far { set: false, pos: 0, exp: 0, custom: false },
            perm: 0,
            overflow: false,
        }
    }
    #[inline(always)]
    fn tok(&self, i: u8) -> u8 {
        self.t[i as usize]
    }
    fn cnt(&self, c: Cnt) -> usize {
        match c {
            Cnt::K(k) => k as usize,
            Cnt::P(i) => self.tok(i) as usize,
            Cnt::Inf => usize::MAX,
        }
    }
    fn flag(&self, f: Flag) -> bool {
        match f {
            Flag::K(b) => b,
            Flag::P(i) => self.tok(i) & 1 == 1,
        }
    }
    /// record a primitive failure at `pos`
    fn fail(&mut self, pos: usize, exp: u32, custom: bool) {
        if !self.far.set || pos > self.far.pos {
            self.far = Far { set: true, pos, exp, custom };
        } else if pos == self.far.pos {
            self.far.exp |= exp;
            self.far.custom |= custom;
        }
    }
    fn emit(&mut self, id: u8, start: usize, end: usize) {
        self.wsum += emit_weight(id);
        if self.n_emis < MAX_EMIS {
            self.emis[self.n_emis] = Emi { id, start: start as u8, end: end as u8 };
            self.n_emis += 1;
        } else {
            self.overflow = true;
        }
    }
}

type R = Option<(Tr, usize)>;

/// Parse `g` as a whole-input grammar: `g` then end of input (what `Parser::parse` does).
pub fn parse(g: &G, env: &mut Env) -> Option<Tr> {
    match eval(g, 0, env) {
        Some((tr, end)) => {
            if end == env.inp.len() {
                Some(tr)
            } else {
                env.fail(end, X_END, false);
                None
            }
        }
        None => None,
    }
}

pub fn eval(g: &G, pos: usize, env: &mut Env) -> R {
    let len = env.inp.len();
    match *g {
        G::Just(i) => {
            let t = env.tok(i);
            if pos < len && env.inp[pos] == t {
                Some((Tr::tok(t), pos + 1))
            } else {
                env.fail(pos, xbit(t), false);
                None
            }
        }
        G::Just2(i, j) => {
            let (a, b) = (env.tok(i), env.tok(j));
            if !(pos < len && env.inp[pos] == a) {
                env.fail(pos, xbit(a), false);
                return None;
            }
            if !(pos + 1 < len && env.inp[pos + 1] == b) {
                env.fail(pos + 1, xbit(b), false);
                return None;
            }
            Some((Tr::tok(a).push(b), pos + 2))
        }
        G::Any => {
            if pos < len {
                Some((Tr::tok(env.inp[pos]), pos + 1))
            } else {
                env.fail(pos, X_ANY, false);
                None
            }
        }
        G::OneOf2(i, j) => {
            let (a, b) = (env.tok(i), env.tok(j));
            if pos < len && (env.inp[pos] == a || env.inp[pos] == b) {
                Some((Tr::tok(env.inp[pos]), pos + 1))
            } else {
                env.fail(pos, xbit(a) | xbit(b), false);
                None
            }
        }
        G::NoneOf1(i) => {
            let a = env.tok(i);
            if pos < len && env.inp[pos] != a {
                Some((Tr::tok(env.inp[pos]), pos + 1))
            } else {
                env.fail(pos, X_ELSE, false);
                None
            }
        }
        G::Select(i) => {
            let a = env.tok(i);
            if pos < len && env.inp[pos] > a {
                Some((Tr::tok(env.inp[pos]), pos + 1))
            } else {
                env.fail(pos, X_ELSE, false);
                None
            }
        }
        G::End => {
            if pos == len {
                Some((Tr::unit(), pos))
            } else {
                env.fail(pos, X_END, false);
                None
            }
        }
        G::Empty => Some((Tr::unit(), pos)),
        G::Custom2(i) => {
            let a = env.tok(i);
            if pos + 1 < len && env.inp[pos + 1] == a {
                Some((Tr::tok(env.inp[pos]).push(a), pos + 2))
            } else {
                // user error, attributed to where the custom parser started
                env.fail(pos, X_NONE, true);
                None
            }
        }
        G::Then(a, b) => {
            let (x, p1) = eval(a, pos, env)?;
            let (y, p2) = eval(b, p1, env)?;
            Some((x.cat(y), p2))
        }
        G::IgnoreThen(a, b) => {
            let (_, p1) = eval(a, pos, env)?;
            eval(b, p1, env)
        }
        G::ThenIgnore(a, b) => {
            let (x, p1) = eval(a, pos, env)?;
            let (_, p2) = eval(b, p1, env)?;
            Some((x, p2))
        }
        G::Seq3(a, b, c) => {
            let (x, p1) = eval(a, pos, env)?;
            let (y, p2) = eval(b, p1, env)?;
            let (z, p3) = eval(c, p2, env)?;
            Some((x.cat(y).cat(z), p3))
        }
        G::Delim(open, body, close) => {
            let (_, p1) = eval(open, pos, env)?;
            let (x, p2) = eval(body, p1, env)?;
            let (_, p3) = eval(close, p2, env)?;
            Some((x, p3))
        }
        G::Pad(body, pad) => {
            let (_, p1) = eval(pad, pos, env)?;
            let (x, p2) = eval(body, p1, env)?;
            let (_, p3) = eval(pad, p2, env)?;
            Some((x, p3))
        }
        G::Or(a, b) => {
            let m = (env.n_emis, env.wsum);
            if let Some(r) = eval(a, pos, env) {
                return Some(r);
            }
            (env.n_emis, env.wsum) = m;
            if let Some(r) = eval(b, pos, env) {
                return Some(r);
            }
            (env.n_emis, env.wsum) = m;
            None
        }
        G::Or3(a, b, c) => {
            let m = (env.n_emis, env.wsum);
            if let Some(r) = eval(a, pos, env) {
                return Some(r);
            }
            (env.n_emis, env.wsum) = m;
            if let Some(r) = eval(b, pos, env) {
                return Some(r);
            }
            (env.n_emis, env.wsum) = m;
            if let Some(r) = eval(c, pos, env) {
                return Some(r);
            }
            (env.n_emis, env.wsum) = m;
            None
        }
        G::OrNot(a) => {
            let m = (env.n_emis, env.wsum);
            match eval(a, pos, env) {
                Some((x, p)) => Some((x.tag(1), p)),
                None => {
                    (env.n_emis, env.wsum) = m;
                    Some((Tr::unit().tag(0), pos))
                }
            }
        }
        G::Not(a) => {
            // negative lookahead: nothing inside leaves a trace (C06 excludes `not` by statement:
            // the failure bookkeeping of a *failing* `not` is pinned by chumsky, not specified)
            let m = (env.n_emis, env.wsum);
            let far = env.far;
            let r = eval(a, pos, env);
            (env.n_emis, env.wsum) = m;
            env.far = far;
            match r {
                Some(_) => {
                    env.fail(pos, X_ELSE, false);
                    None
                }
                None => Some((Tr::unit(), pos)),
            }
        }
        G::AndIs(a, b) => {
            let m = (env.n_emis, env.wsum);
            let (x, p1) = match eval(a, pos, env) {
                Some(r) => r,
                None => {
                    (env.n_emis, env.wsum) = m;
                    return None;
                }
            };
            // positive lookahead on the same start position; its emissions are not specified
            // (catalogue shapes never put an emitter in B)
            match eval(b, pos, env) {
                Some(_) => Some((x, p1)),
                None => {
                    (env.n_emis, env.wsum) = m;
                    None
                }
            }
        }
        G::Rewind(a) => {
            let (x, _) = eval(a, pos, env)?;
            Some((x, pos))
        }
        G::Tag(k, a) => {
            let (x, p) = eval(a, pos, env)?;
            Some((x.tag(k), p))
        }
        G::Span(a) => {
            let (x, p) = eval(a, pos, env)?;
            Some((x.span(pos, p), p))
        }
        G::To(a, c) => {
            let (_, p) = eval(a, pos, env)?;
            Some((Tr::tok(c), p))
        }
        G::Ignored(a) => {
            let (_, p) = eval(a, pos, env)?;
            Some((Tr::unit(), p))
        }
        G::Filter(a, i) => {
            let m = (env.n_emis, env.wsum);
            let (x, p) = eval(a, pos, env)?;
            if x.low() > env.tok(i) {
                Some((x, p))
            } else {
                (env.n_emis, env.wsum) = m;
                // chumsky attributes this to the END of the rejected match; the property leaves the
                // position of a semantic rejection open (C06 harnesses avoid it)
                env.fail(p, X_ELSE, false);
                None
            }
        }
        G::TryMap(a, i) => {
            let m = (env.n_emis, env.wsum);
            let far0 = env.far;
            let (x, p) = eval(a, pos, env)?;
            if x.low() > env.tok(i) {
                Some((x.tag(7), p))
            } else {
                (env.n_emis, env.wsum) = m;
                // permissive corner (bit 2): the user's error SUPERSEDES the failures recorded inside the match it
                // rejects (`int.try_map(too_large)`: "number too large", not "expected digit" from the digit loop)
                if env.perm & 4 == 4 {
                    env.far = far0;
                }
                env.fail(pos, X_NONE, true);
                None
            }
        }
        G::TryMapWith(a, i) => {
            let m = (env.n_emis, env.wsum);
            let (x, p) = eval(a, pos, env)?;
            if x.low() > env.tok(i) {
                Some((x.tag(7), p))
            } else {
                (env.n_emis, env.wsum) = m;
                env.fail(p, X_NONE, true);
                None
            }
        }
        G::Rep(a, lo, hi) => {
            let (items, n, p) = rep(a, pos, env, lo, hi)?;
            Some((Tr::list(&items[..n]), p))
        }
        G::RepCount(a, lo, hi) => {
            let (_, n, p) = rep(a, pos, env, lo, hi)?;
            Some((Tr::unit().push(0xC0 | (n as u8 & 0x0f)), p))
        }
        G::Sep(item, sep, lo, hi, lead, trail) => {
            let (items, n, p) = sep_by(item, sep, pos, env, lo, hi, lead, trail)?;
            Some((Tr::list(&items[..n]), p))
        }
        G::RepUnit(a, lo, hi) => {
            let (_, _, p) = rep(a, pos, env, lo, hi)?;
            Some((Tr::unit().push(0xC0 | ((p - pos) as u8 & 0x0f)), p))
        }
        G::SepUnit(item, sep, lo, hi, lead, trail) => {
            let (_, _, p) = sep_by(item, sep, pos, env, lo, hi, lead, trail)?;
            Some((Tr::unit().push(0xC0 | ((p - pos) as u8 & 0x0f)), p))
        }
        G::SepCount(item, sep, lo, hi, lead, trail) => {
            let (_, n, p) = sep_by(item, sep, pos, env, lo, hi, lead, trail)?;
            Some((Tr::unit().push(0xC0 | (n as u8 & 0x0f)), p))
        }
        G::CollectEx2(a) => {
            let (items, n, p) = rep(a, pos, env, Cnt::K(2), Cnt::K(2))?;
            Some((Tr::list(&items[..n]), p))
        }
        G::CollectEx2B(a, hi) => {
            if env.cnt(hi) >= 2 {
                let (items, n, p) = rep(a, pos, env, Cnt::K(2), Cnt::K(2))?;
                Some((Tr::list(&items[..n]), p))
            } else {
                // the repetition stops at its cap before the array is full: failure (after having run the items)
                let _ = rep(a, pos, env, Cnt::K(0), hi);
                None
            }
        }
        G::Enum(a, lo, hi) => {
            let (mut items, n, p) = rep(a, pos, env, lo, hi)?;
            let mut i = 0;
            while i < n {
                items[i] = items[i].push(i as u8);
                i += 1;
            }
            Some((Tr::list(&items[..n]), p))
        }
        G::Lazy(a) => {
            let (x, _) = eval(a, pos, env)?;
            Some((x, len))
        }
        G::Rest => Some((Tr::unit().push(0xC0 | ((len - pos) as u8 & 0x0f)), len)),
        G::Foldl(a, b) => {
            let (mut acc, mut p) = eval(a, pos, env)?;
            loop {
                let m = (env.n_emis, env.wsum);
                match eval(b, p, env) {
                    Some((y, q)) => {
                        acc = acc.cat(y).tag(3);
                        p = q;
                    }
                    None => {
                        (env.n_emis, env.wsum) = m;
                        break;
                    }
                }
            }
            Some((acc, p))
        }
        G::Foldr(a, b) => {
            let (items, n, p) = rep(a, pos, env, Cnt::K(0), Cnt::Inf)?;
            let (mut acc, q) = eval(b, p, env)?;
            let mut i = n;
            while i > 0 {
                i -= 1;
                acc = items[i].cat(acc).tag(4);
            }
            Some((acc, q))
        }
        G::Validate(a, id) => {
            let (x, p) = eval(a, pos, env)?;
            env.emit(id, pos, p);
            Some((x, p))
        }
        // recover_with: three separate constructors (not one constructor carrying a strategy enum) so that the
        // solver's constant propagation resolves the strategy from the grammar constant — with a nested enum the
        // dispatch stayed symbolic and every strategy loop was unrolled (measured: 12 GB)
        G::RecVia(a, f) => {
            let m = (env.n_emis, env.wsum);
            if let Some(r) = eval(a, pos, env) {
                return Some(r);
            }
            let e = rec_begin(env, m);
            let r = eval(f, pos, env);
            rec_end(env, m, e, r)
        }
        G::RecSkipUntil(a, skip, until) => {
            let m = (env.n_emis, env.wsum);
            if let Some(r) = eval(a, pos, env) {
                return Some(r);
            }
            let e = rec_begin(env, m);
            let mut p = pos;
            let r = loop {
                let m2 = (env.n_emis, env.wsum);
                if let Some((_, q)) = eval(until, p, env) {
                    break Some((Tr::tok(0xFB), q));
                }
                (env.n_emis, env.wsum) = m2;
                match eval(skip, p, env) {
                    Some((_, q)) => p = q,
                    None => break None,
                }
            };
            rec_end(env, m, e, r)
        }
        G::RecSkipRetry(a, skip, until) => {
            let m = (env.n_emis, env.wsum);
            if let Some(r) = eval(a, pos, env) {
                return Some(r);
            }
            let e = rec_begin(env, m);
            let mut p = pos;
            let r = loop {
                let m2 = (env.n_emis, env.wsum);
                let u = eval(until, p, env);
                (env.n_emis, env.wsum) = m2;
                if u.is_some() {
                    break None;
                }
                match eval(skip, p, env) {
                    Some((_, q)) => p = q,
                    None => break None,
                }
                let m3 = (env.n_emis, env.wsum);
                match eval(a, p, env) {
                    Some(r) if env.n_emis == m3.0 => break Some(r),
                    _ => {
                        (env.n_emis, env.wsum) = m3;
                        env.far = Far { set: false, pos: 0, exp: 0, custom: false };
                    }
                }
            };
            rec_end(env, m, e, r)
        }
    }
}

/// the first attempt failed: forget its emissions; E = the error the parse would report as primary had this failure
/// been final; the strategy then runs with a clean slate of pending errors
fn rec_begin(env: &mut Env, m: (usize, usize)) -> Far {
    (env.n_emis, env.wsum) = m;
    let e = env.far;
    env.far = Far { set: false, pos: 0, exp: 0, custom: false };
    e
}

/// strategy succeeded: its output plus exactly one extra error, E; strategy failed: fail with E, nothing consumed
fn rec_end(env: &mut Env, m: (usize, usize), e: Far, r: R) -> R {
    match r {
        Some((x, q)) => {
            env.emit(0xEE, e.pos, e.pos);
            Some((x, q))
        }
        None => {
            (env.n_emis, env.wsum) = m;
            env.far = e;
            None
        }
    }
}

pub const MAX_ITEMS: usize = 6;

fn rep(a: &G, pos: usize, env: &mut Env, lo: Cnt, hi: Cnt) -> Option<([Tr; MAX_ITEMS], usize, usize)> {
    let (lo, hi) = (env.cnt(lo), env.cnt(hi));
    let mut items = [Tr::unit(); MAX_ITEMS];
    let mut n = 0usize;
    let mut p = pos;
    while n < hi && n < MAX_ITEMS {
        let m = (env.n_emis, env.wsum);
        match eval(a, p, env) {
            Some((x, q)) => {
                items[n] = x;
                n += 1;
                p = q;
            }
            None => {
                (env.n_emis, env.wsum) = m;
                break;
            }
        }
    }
    if n >= lo && n <= hi {
        Some((items, n, p))
    } else {
        None
    }
}

#[allow(clippy::too_many_arguments)]
fn sep_by(
    item: &G,
    sep: &G,
    pos: usize,
    env: &mut Env,
    lo: Cnt,
    hi: Cnt,
    lead: Flag,
    trail: Flag,
) -> Option<([Tr; MAX_ITEMS], usize, usize)> {
    let (lo, hi) = (env.cnt(lo), env.cnt(hi));
    let (lead, trail) = (env.flag(lead), env.flag(trail));
    let mut items = [Tr::unit(); MAX_ITEMS];
    let mut n = 0usize;
    // `p` = position after the last accepted item (or `pos`)
    let mut p = pos;
    let m0 = (env.n_emis, env.wsum);
    loop {
        if n >= hi || n >= MAX_ITEMS {
            // bound reached. A trailing separator MAY be consumed if allowed (permissive corner, bit 0)
            if trail && n > 0 && env.perm & 1 == 1 {
                let m = (env.n_emis, env.wsum);
                match eval(sep, p, env) {
                    Some((_, q)) => p = q,
                    None => (env.n_emis, env.wsum) = m,
                }
            }
            break;
        }
        let m = (env.n_emis, env.wsum);
        // separator (between items) or optional leading separator
        let mut q = p;
        let mut took_sep = false;
        if n > 0 {
            match eval(sep, p, env) {
                Some((_, q2)) => {
                    q = q2;
                    took_sep = true;
                }
                None => {
                    (env.n_emis, env.wsum) = m;
                    break;
                }
            }
        } else if lead {
            let ml = (env.n_emis, env.wsum);
            match eval(sep, p, env) {
                Some((_, q2)) => {
                    q = q2;
                    took_sep = true;
                }
                None => (env.n_emis, env.wsum) = ml,
            }
        }
        let mi = (env.n_emis, env.wsum);
        match eval(item, q, env) {
            Some((x, q2)) => {
                items[n] = x;
                n += 1;
                p = q2;
            }
            None => {
                // item failed: the separator just consumed is a trailing one if allowed, else given back
                // (zero items: whether a consumed LEADING separator stays consumed is the permissive corner)
                if took_sep && ((trail && n > 0) || (n == 0 && env.perm & 2 == 2)) {
                    (env.n_emis, env.wsum) = mi;
                    p = q;
                } else {
                    (env.n_emis, env.wsum) = m;
                }
                break;
            }
        }
    }
    if n >= lo && n <= hi {
        Some((items, n, p))
    } else {
        (env.n_emis, env.wsum) = m0;
        None
    }
}
