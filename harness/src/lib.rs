//! cvh — Kani/CBMC harnesses over the real chumsky code in /repo (see /verif/DESIGN.md).
#![allow(clippy::type_complexity)]

pub mod errs;
pub mod fam;
pub mod obs;
pub mod prims;
pub mod refsem;
pub mod sym;

pub type Body = fn(&mut sym::QueueSrc);

/// Declares harnesses: under `cfg(kani)` one `#[kani::proof]` each; natively a registry for replay.
#[macro_export]
macro_rules! harnesses {
    ($( $name:ident [$unwind:expr] = $body:ident ;)*) => {
        $(
            #[cfg(kani)]
            #[kani::proof]
            #[kani::unwind($unwind)]
            pub fn $name() {
                $body(&mut $crate::sym::KaniSrc)
            }
        )*
        pub const REG: &[(&str, $crate::Body)] = &[
            $( (stringify!($name), $body::<$crate::sym::QueueSrc> as $crate::Body), )*
        ];
    };
}

/// Same, for harnesses whose grammar calls `Recursive::define` (which captures `Location::caller()`, reported by
/// Kani as an unsupported construct): the caller location is stubbed by a fixed one. Registers as `REG2`.
#[macro_export]
macro_rules! harnesses_stub_caller {
    ($( $name:ident [$unwind:expr] = $body:ident ;)*) => {
        $(
            #[cfg(kani)]
            #[kani::proof]
            #[kani::unwind($unwind)]
            #[kani::stub(core::panic::Location::caller, $crate::fake_caller)]
            pub fn $name() {
                $body(&mut $crate::sym::KaniSrc)
            }
        )*
        pub const REG2: &[(&str, $crate::Body)] = &[
            $( (stringify!($name), $body::<$crate::sym::QueueSrc> as $crate::Body), )*
        ];
    };
}

/// Stand-in for `core::panic::Location::caller` (only ever used to build the "defined twice" panic message).
#[cfg(kani)]
pub fn fake_caller<'a>() -> &'static core::panic::Location<'a> {
    static FAKE: (&str, u32, u32) = ("harness\0", 1, 1);
    // SAFETY: never dereferenced on any path the harnesses take (the location is stored, and read only when
    // building the panic message of a second `define`); size and alignment match `Location`
    unsafe { core::mem::transmute::<&(&str, u32, u32), &core::panic::Location<'a>>(&FAKE) }
}

/// The shared C03 result contract, asserted by every harness on the real `ParseResult`.
pub fn contract<T, E>(r: &chumsky::ParseResult<T, E>) {
    check!("C03:contract:no-output-implies-error", r.has_output() || r.has_errors());
    check!("C03:contract:error-free-implies-output", r.has_errors() || r.has_output());
}

pub mod gen;
pub mod hand;
#[cfg(kani)]
pub mod probe;

pub fn registry() -> Vec<(&'static str, Body)> {
    let mut v = Vec::new();
    hand::extend(&mut v);
    gen::extend(&mut v);
    v
}
