//! cvh — Kani/CBMC harnesses over the real chumsky code in /repo (see /verif/DESIGN.md).
#![allow(clippy::type_complexity)]

pub mod errs;
pub mod fam;
pub mod obs;
pub mod prims;
pub mod refsem;
pub mod sym;

pub type Body = fn(&mut sym::QueueSrc);

/// Declares harnesses: under `cfg(kani)` one `#[kani::proof]` each; natively a registry for replay.
#[macro_export]
macro_rules! harnesses {
    ($( $name:ident [$unwind:expr] = $body:ident ;)*) => {
        $(
            #[cfg(kani)]
            #[kani::proof]
            #[kani::unwind($unwind)]
            pub fn $name() {
                $body(&mut $crate::sym::KaniSrc)
            }
        )*
        pub const REG: &[(&str, $crate::Body)] = &[
            $( (stringify!($name), $body::<$crate::sym::QueueSrc> as $crate::Body), )*
        ];
    };
}

/// The shared C03 result contract, asserted by every harness on the real `ParseResult`.
pub fn contract<T, E>(r: &chumsky::ParseResult<T, E>) {
    check!("C03:contract:no-output-implies-error", r.has_output() || r.has_errors());
    check!("C03:contract:error-free-implies-output", r.has_errors() || r.has_output());
}

pub mod gen;
pub mod hand;
#[cfg(kani)]
pub mod probe;

pub fn registry() -> Vec<(&'static str, Body)> {
    let mut v = Vec::new();
    hand::extend(&mut v);
    gen::extend(&mut v);
    v
}
