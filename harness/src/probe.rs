//! scratch probes (not registered)
use crate::obs::{same, Tr};
use crate::prims::pc::*;
use crate::refsem::{self, Cnt, Env, G};
use crate::sym::{Inp, Src};

#[cfg(kani)]
#[kani::proof]
#[kani::unwind(7)]
pub fn probe_chumsky_only() {
    let s = &mut crate::sym::KaniSrc;
    let t: [u8; 3] = [s.u8(), s.upto(4), s.upto(4)];
    crate::sym::assume(t[1] <= t[2]);
    let inp = Inp::<4>::any(s);
    let x = inp.get();
    let p = then(sp(rep(sp(j(t[0])), t[1] as usize, t[2] as usize)), sp(rest()));
    let r = p.parse(x);
    let out: Option<Tr> = r.output().copied();
    kani::cover!(out.is_some());
}

#[cfg(kani)]
#[kani::proof]
#[kani::unwind(7)]
pub fn probe_refsem_only() {
    let s = &mut crate::sym::KaniSrc;
    let t: [u8; 3] = [s.u8(), s.upto(4), s.upto(4)];
    crate::sym::assume(t[1] <= t[2]);
    let inp = Inp::<4>::any(s);
    let x = inp.get();
    const AST: G = G::Then(&G::Span(&G::Rep(&G::Span(&G::Just(0)), Cnt::P(1), Cnt::P(2))), &G::Span(&G::Rest));
    let mut env = Env::new(x, &t);
    let e = refsem::parse(&AST, &mut env);
    kani::cover!(e.is_some());
}

#[cfg(kani)]
#[kani::proof]
#[kani::unwind(7)]
pub fn probe_both() {
    let s = &mut crate::sym::KaniSrc;
    let t: [u8; 3] = [s.u8(), s.upto(4), s.upto(4)];
    crate::sym::assume(t[1] <= t[2]);
    let inp = Inp::<4>::any(s);
    let x = inp.get();
    let p = then(sp(rep(sp(j(t[0])), t[1] as usize, t[2] as usize)), sp(rest()));
    let r = p.parse(x);
    let out: Option<Tr> = r.output().copied();
    const AST: G = G::Then(&G::Span(&G::Rep(&G::Span(&G::Just(0)), Cnt::P(1), Cnt::P(2))), &G::Span(&G::Rest));
    let mut env = Env::new(x, &t);
    let e = refsem::parse(&AST, &mut env);
    kani::assert(same(&out, &e), "same");
}

#[cfg(kani)]
#[kani::proof]
#[kani::unwind(7)]
pub fn probe_both_forget() {
    let s = &mut crate::sym::KaniSrc;
    let t: [u8; 3] = [s.u8(), s.upto(4), s.upto(4)];
    crate::sym::assume(t[1] <= t[2]);
    let inp = Inp::<4>::any(s);
    let x = inp.get();
    let p = then(sp(rep(sp(j(t[0])), t[1] as usize, t[2] as usize)), sp(rest()));
    let r = p.parse(x);
    let out: Option<Tr> = r.output().copied();
    core::mem::forget(r);
    const AST: G = G::Then(&G::Span(&G::Rep(&G::Span(&G::Just(0)), Cnt::P(1), Cnt::P(2))), &G::Span(&G::Rest));
    let mut env = Env::new(x, &t);
    let e = refsem::parse(&AST, &mut env);
    kani::assert(same(&out, &e), "same");
    core::mem::forget(p);
}

#[cfg(kani)]
#[kani::proof]
#[kani::unwind(7)]
pub fn probe_nocover() {
    let s = &mut crate::sym::KaniSrc;
    let t: [u8; 3] = [s.u8(), s.upto(4), s.upto(4)];
    crate::sym::assume(t[1] <= t[2]);
    let inp = Inp::<4>::any(s);
    let x = inp.get();
    let p = then(sp(rep(sp(j(t[0])), t[1] as usize, t[2] as usize)), sp(rest()));
    const AST: G = G::Then(&G::Span(&G::Rep(&G::Span(&G::Just(0)), Cnt::P(1), Cnt::P(2))), &G::Span(&G::Rest));
    let r = p.parse(x);
    crate::contract(&r);
    let out: Option<Tr> = r.output().copied();
    let perms: &[u8] = &[0u8];
    let mut ok_acc = false;
    let mut ok_out = false;
    let mut k = 0;
    while k < perms.len() {
        let mut env = Env::new(x, &t);
        env.perm = perms[k];
        let e = refsem::parse(&AST, &mut env);
        ok_acc |= e.is_some() == out.is_some();
        ok_out |= same(&out, &e);
        k += 1;
    }
    kani::assert(ok_acc, "acc");
    kani::assert(ok_out, "out");
}
#[cfg(kani)]
#[kani::proof]
#[kani::unwind(7)]
pub fn probe_cover2() {
    let s = &mut crate::sym::KaniSrc;
    let t: [u8; 3] = [s.u8(), s.upto(4), s.upto(4)];
    crate::sym::assume(t[1] <= t[2]);
    let inp = Inp::<4>::any(s);
    let x = inp.get();
    let p = then(sp(rep(sp(j(t[0])), t[1] as usize, t[2] as usize)), sp(rest()));
    const AST: G = G::Then(&G::Span(&G::Rep(&G::Span(&G::Just(0)), Cnt::P(1), Cnt::P(2))), &G::Span(&G::Rest));
    let r = p.parse(x);
    let out: Option<Tr> = r.output().copied();
    let mut env = Env::new(x, &t);
    let e = refsem::parse(&AST, &mut env);
    kani::assert(same(&out, &e), "same");
    kani::cover!(out.is_some());
    kani::cover!(out.is_none());
}

#[cfg(kani)]
#[kani::proof]
#[kani::unwind(7)]
pub fn probe_gen() {
    crate::gen::c02::c02_rep_bounds_body(&mut crate::sym::KaniSrc)
}
