//! scratch probes (not registered)
use crate::sym::{Inp, Src};
use chumsky::prelude::*;
use crate::errs::{TagErr, MkErr};
#[cfg(kani)]
#[kani::proof]
#[kani::unwind(6)]
pub fn probe_x1() {
    let s = &mut crate::sym::KaniSrc;
    let t: [u8; 1] = [s.u8()];
    let inp = Inp::<3>::any(s);
    let x = inp.get();
    let p = just::<u8, &[u8], extra::Err<TagErr>>(t[0]).then(any()).validate(|o, e, em| { let sp: SimpleSpan = e.span(); em.emit(TagErr::new(1, sp)); em.emit(TagErr::new(2, sp)); o });
    let r = p.parse(x);
    let (out, errs) = r.into_output_errors();
    if out.is_some() {
        kani::assert(errs.len() == 2, "n");
        if errs.len() == 2 {
            kani::assert(errs[0].0 & 0xff == 1, "id0");
            kani::assert(errs[1].0 & 0xff == 2, "id1");
        }
    }
}
#[cfg(kani)]
#[kani::proof]
#[kani::unwind(6)]
pub fn probe_x2() {
    use crate::prims::pt::*;
    let s = &mut crate::sym::KaniSrc;
    let t: [u8; 2] = [s.u8(), s.u8()];
    let inp = Inp::<3>::any(s);
    let x = inp.get();
    let p = then(rec_via(then(j(t[0]), j(t[1])), to_(any_(), 0xFB)), ornot(any_()));
    let r = p.parse(x);
    let (out, errs) = r.into_output_errors();
    if out.is_some() && errs.len() > 0 {
        kani::assert(errs.len() == 1, "n");
        kani::assert(errs[0].0 & 0xff == 0xEE, "id0");
        kani::assert(errs[0].start() <= 1, "pos");
    }
}
#[cfg(kani)]
#[kani::proof]
#[kani::unwind(6)]
pub fn probe_x3() {
    use crate::prims::pt::*;
    let s = &mut crate::sym::KaniSrc;
    let t: [u8; 2] = [s.u8(), s.u8()];
    let inp = Inp::<3>::any(s);
    let x = inp.get();
    let p = then(rec_via(then(j(t[0]), j(t[1])), to_(any_(), 0xFB)), ornot(val(any_(), 3)));
    let r = p.parse(x);
    let (out, errs) = r.into_output_errors();
    if out.is_some() && errs.len() > 1 {
        kani::assert(errs.len() == 2, "n");
        kani::assert(errs[0].0 & 0xff == 0xEE, "id0");
        kani::assert(errs[1].0 & 0xff == 3, "id1");
    }
}
