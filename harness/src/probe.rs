//! scratch probes (not registered)
use crate::sym::{Inp, Src};
use crate::refsem::{self, Cnt, Env, G};
#[cfg(kani)]
#[kani::proof]
#[kani::unwind(6)]
pub fn probe_rec_refsem() {
    let s = &mut crate::sym::KaniSrc;
    let t: [u8; 2] = [s.u8(), s.u8()];
    let inp = Inp::<3>::any(s);
    let x = inp.get();
    const AST: G = G::Then(&G::Span(&G::RecVia(&G::Tag(1, &G::Then(&G::Just(0), &G::Just(1))), &G::Span(&G::To(&G::Any, 251)))), &G::Span(&G::Rest));
    let mut env = Env::new(x, &t);
    let e = refsem::parse(&AST, &mut env);
    kani::cover!(e.is_some() && env.n_emis == 1);
}
