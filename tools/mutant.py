#!/usr/bin/env python3
"""mutant.py — sensitivity runs: do the checks notice a seeded change to chumsky?

  mutant.py <patch.diff> <Cxx>[,<Cyy>...] [--tier quick|thorough] [--only fn,fn] [--keep] [--jobs N]

Creates a scratch git worktree of /repo (under /tmp/cvmut), applies the patch there, copies the harness crate
next to it with its path dependency pointing at the scratch worktree, and runs `cv.py check` for the given
properties against it with its own build cache (CV_REPO / CV_HARNESS / CV_CACHE). Nothing in /repo or in
/verif/evidence is touched, so this can run while registered checks are running. Everything under /tmp/cvmut/<id>
is removed afterwards (unless --keep).

This is NOT one of the registered checks and produces no evidence; it only answers "which check reports this
change". Exit code: 0 if at least one of the given properties reported a VIOLATION, 1 otherwise.
"""
import hashlib
import os
import re
import shutil
import subprocess
import sys

TOOLS = os.path.dirname(os.path.abspath(__file__))
VERIF = os.path.dirname(TOOLS)
ROOT = "/tmp/cvmut"


def sh(cmd, **kw):
    return subprocess.run(cmd, stdout=subprocess.PIPE, stderr=subprocess.STDOUT, text=True, **kw)


def main():
    a = sys.argv[1:]
    if len(a) < 2:
        print(__doc__)
        return 64
    patch = os.path.abspath(a[0])
    props = a[1].split(",")
    tier, only, keep, jobs = "quick", None, False, "6"
    i = 2
    while i < len(a):
        if a[i] == "--tier":
            tier = a[i + 1]; i += 2
        elif a[i] == "--only":
            only = a[i + 1]; i += 2
        elif a[i] == "--keep":
            keep = True; i += 1
        elif a[i] == "--jobs":
            jobs = a[i + 1]; i += 2
        else:
            i += 1
    mid = hashlib.sha1((patch + ",".join(props) + str(os.getpid())).encode()).hexdigest()[:10]
    base = os.path.join(ROOT, mid)
    wt = os.path.join(base, "repo")
    hd = os.path.join(base, "h", "harness")
    os.makedirs(os.path.join(base, "h"), exist_ok=True)
    p = sh(["git", "-C", "/repo", "worktree", "add", "--detach", wt, "HEAD"])
    if p.returncode != 0:
        print(p.stdout)
        return 2
    rc = 1
    try:
        p = sh(["git", "-C", wt, "apply", patch])
        if p.returncode != 0:
            print("patch does not apply:\n" + p.stdout)
            return 2
        shutil.copytree(os.path.join(VERIF, "harness"), hd, ignore=shutil.ignore_patterns("target"))
        shutil.copytree(os.path.join(VERIF, "stubs"), os.path.join(base, "h", "stubs"))
        ct = os.path.join(hd, "Cargo.toml")
        s = open(ct).read()
        assert 'path = "/repo"' in s
        open(ct, "w").write(s.replace('path = "/repo"', f'path = "{wt}"'))
        env = dict(os.environ)
        env.update({"CV_REPO": wt, "CV_HARNESS": hd, "CV_CACHE": os.path.join(base, "cache"), "CV_JOBS": jobs,
                    "CV_THOROUGH_JOBS": str(max(1, int(jobs) // 2))})
        hit = []
        for prop in props:
            cmd = [sys.executable, os.path.join(TOOLS, "cv.py"), "check", prop, "--tier", tier, "--no-evidence"]
            if only:
                cmd += ["--only", only]
            r = subprocess.run(cmd, cwd=VERIF, env=env, stdout=subprocess.PIPE, stderr=subprocess.PIPE, text=True)
            lines = [l for l in r.stdout.splitlines() if not l.startswith("KNOWN-FINDING")]
            print(f"--- {prop} ({tier}) rc={r.returncode}")
            for l in lines:
                print("   " + l)
            # show which harness / labels each violation came from
            for l in r.stderr.splitlines():
                if "labels=" in l:
                    print("   " + l.strip())
            if r.returncode == 1 and any(l.startswith("VIOLATION") for l in lines):
                hit.append(prop)
        print(f"MUTANT {os.path.basename(os.path.dirname(patch))}/{os.path.basename(patch)} detected_by={hit or 'NONE'}")
        rc = 0 if hit else 1
    finally:
        if not keep:
            sh(["git", "-C", "/repo", "worktree", "remove", "--force", wt])
            shutil.rmtree(base, ignore_errors=True)
            sh(["git", "-C", "/repo", "worktree", "prune"])
    return rc


if __name__ == "__main__":
    sys.exit(main())
