#!/bin/bash
# seedall.sh <jobs> <id>... — run each seeded change against its property's quick check (development aid)
cd "$(dirname "$0")/.."
jobs=$1; shift
mkdir -p .cache/seedruns
for s in "$@"; do
  t0=$(date +%s)
  CV_JOBS=$jobs python3 tools/seed.py run $s --tier quick > .cache/seedruns/$s.log 2>&1
  echo "$s rc=$? $(( $(date +%s) - t0 ))s $(grep '^MUTANT' .cache/seedruns/$s.log)"
done
