#!/usr/bin/env python3
"""seed.py — bookkeeping for seeded changes (/verif/seeded/<id>/).

  seed.py confirm <src_dir> <id> <Cxx> [--features f1,f2] [--needs "text"]
        <src_dir> holds patch.diff, demo.rs (and NOTES.md) as delivered by a sub-agent. Confirms, in a fresh scratch
        worktree of /repo: (1) the patch applies and builds, (2) `cargo test --lib --offline` stays green (the 40
        pinned tests), (3) the demo FAILS with the patch and (4) PASSES without it. Only then copies it to
        /verif/seeded/<id>/ with a meta.json recording what was run.
  seed.py run <id> [--tier quick] [--props Cxx,Cyy] [--only fn,..]
        runs tools/mutant.py for the seeded change against its property's check (scratch worktree; /repo untouched)
        and records the outcome in meta.json ("detected_by").
  seed.py table
        prints the DESIGN.md table (id, property, what, needs, detected by)
"""
import json
import os
import re
import shutil
import subprocess
import sys
import time

TOOLS = os.path.dirname(os.path.abspath(__file__))
VERIF = os.path.dirname(TOOLS)
SEEDED = os.path.join(VERIF, "seeded")
ENV = dict(os.environ, CARGO_NET_OFFLINE="true", CARGO_TERM_COLOR="never")


def sh(cmd, cwd=None, timeout=3600):
    p = subprocess.run(cmd, cwd=cwd, env=ENV, stdout=subprocess.PIPE, stderr=subprocess.STDOUT, text=True, timeout=timeout)
    return p.returncode, p.stdout


def summary(out):
    return [l.strip() for l in out.splitlines() if l.startswith("test result:")]


def confirm(src, sid, prop, features, needs):
    wt = f"/tmp/cvconf/{sid}"
    shutil.rmtree(wt, ignore_errors=True)
    os.makedirs("/tmp/cvconf", exist_ok=True)
    rc, out = sh(["git", "-C", "/repo", "worktree", "add", "--detach", wt, "HEAD"])
    if rc:
        print(out)
        return 2
    ran = []
    try:
        patch = os.path.join(src, "patch.diff")
        demo = os.path.join(src, "demo.rs")
        os.makedirs(os.path.join(wt, "tests"), exist_ok=True)
        shutil.copy(demo, os.path.join(wt, "tests", "seed_demo.rs"))
        feat = ["--features", features] if features else []
        # without the patch: demo passes
        rc0, out0 = sh(["cargo", "test", "--offline", "--test", "seed_demo"] + feat, cwd=wt)
        ran.append({"cmd": "cargo test --offline --test seed_demo " + " ".join(feat), "tree": "unmodified", "rc": rc0, "summary": summary(out0)})
        rc, out = sh(["git", "-C", wt, "apply", patch])
        if rc:
            print("patch does not apply", out)
            return 2
        rc1, out1 = sh(["cargo", "test", "--offline", "--test", "seed_demo"] + feat, cwd=wt)
        ran.append({"cmd": "cargo test --offline --test seed_demo " + " ".join(feat), "tree": "patched", "rc": rc1, "summary": summary(out1)})
        rc2, out2 = sh(["cargo", "test", "--offline", "--lib"], cwd=wt)
        ran.append({"cmd": "cargo test --offline --lib", "tree": "patched", "rc": rc2, "summary": summary(out2)})
        rc3, out3 = sh(["cargo", "test", "--offline", "--doc"], cwd=wt)
        ran.append({"cmd": "cargo test --offline --doc", "tree": "patched", "rc": rc3, "summary": summary(out3)})
        rc4, out4 = sh(["cargo", "build", "--offline", "--features", "pratt,memoization,extension,either,unstable"], cwd=wt)
        ran.append({"cmd": "cargo build --offline --features pratt,memoization,extension,either,unstable", "tree": "patched", "rc": rc4})
        ok = rc0 == 0 and rc1 != 0 and "test result: FAILED" in out1 and rc2 == 0 and rc4 == 0
        print(json.dumps(ran, indent=1))
        if not ok:
            print(f"NOT CONFIRMED {sid}: demo_unmodified rc={rc0} demo_patched rc={rc1} lib rc={rc2} build rc={rc4}")
            if rc0:
                print(out0[-2000:])
            if rc2:
                print(out2[-2000:])
            return 1
        dst = os.path.join(SEEDED, sid)
        os.makedirs(dst, exist_ok=True)
        shutil.copy(patch, os.path.join(dst, "patch.diff"))
        shutil.copy(demo, os.path.join(dst, "demo.rs"))
        notes = os.path.join(src, "NOTES.md")
        if os.path.exists(notes):
            shutil.copy(notes, os.path.join(dst, "NOTES.md"))
        files = sorted(set(re.findall(r"^\+\+\+ b/(\S+)", open(patch).read(), re.M)))
        meta = {"id": sid, "breaks_property": prop, "files": files, "demo_features": features or "",
                "needs_to_manifest": needs, "origin": "independent sub-agent given only the property text and a scratch worktree",
                "confirmed": {"at": time.strftime("%Y-%m-%d"), "doc_tests_pass_with_patch": rc3 == 0, "ran": ran},
                "detected_by": None}
        mp = os.path.join(dst, "meta.json")
        if os.path.exists(mp):
            old = json.load(open(mp))
            meta["detected_by"] = old.get("detected_by")
            meta["runs"] = old.get("runs", [])
        json.dump(meta, open(mp, "w"), indent=1)
        print(f"CONFIRMED {sid} (doc tests pass with patch: {rc3 == 0})")
        return 0
    finally:
        sh(["git", "-C", "/repo", "worktree", "remove", "--force", wt])
        shutil.rmtree(wt, ignore_errors=True)
        sh(["git", "-C", "/repo", "worktree", "prune"])


def run(sid, tier, props, only):
    dst = os.path.join(SEEDED, sid)
    mp = os.path.join(dst, "meta.json")
    meta = json.load(open(mp))
    props = props or meta["breaks_property"]
    cmd = [sys.executable, os.path.join(TOOLS, "mutant.py"), os.path.join(dst, "patch.diff"), props, "--tier", tier]
    if only:
        cmd += ["--only", only]
    if os.environ.get("CV_JOBS"):
        cmd += ["--jobs", os.environ["CV_JOBS"]]
    t0 = time.time()
    p = subprocess.run(cmd, stdout=subprocess.PIPE, stderr=subprocess.STDOUT, text=True)
    print(p.stdout)
    m = re.search(r"detected_by=(.*)$", p.stdout, re.M)
    det = m.group(1) if m else "?"
    viol = re.findall(r"harness=(\S+) labels=(\[.*?\])", p.stdout)
    rec = {"at": time.strftime("%Y-%m-%d %H:%M"), "props": props, "tier": tier, "only": only, "detected_by": det,
           "violations": [{"harness": h, "labels": l} for h, l in viol], "wall_s": round(time.time() - t0),
           "inconclusive": re.findall(r"INCONCLUSIVE property=\S+ harness=(\S+)", p.stdout)}
    meta.setdefault("runs", []).append(rec)
    if det not in ("NONE", "?"):
        meta["detected_by"] = sorted(set((meta.get("detected_by") or []) + [f"{props.split(',')[0] if len(props.split(','))==1 else det} {tier}: " + ", ".join(sorted({h for h, _ in viol}))]))
    json.dump(meta, open(mp, "w"), indent=1)
    return 0 if det not in ("NONE", "?") else 1


def table():
    rows = []
    for sid in sorted(os.listdir(SEEDED)):
        mp = os.path.join(SEEDED, sid, "meta.json")
        if not os.path.exists(mp):
            continue
        m = json.load(open(mp))
        rows.append(f"| {sid} | {m['breaks_property']} | {m.get('what', '')} | {m.get('needs_to_manifest', '')} | {'; '.join(m.get('detected_by') or ['**not detected**'])} |")
    print("| seeded change | property | what | needs | detected by |\n|---|---|---|---|---|")
    print("\n".join(rows))


def main():
    a = sys.argv[1:]
    if not a:
        print(__doc__)
        return 64
    if a[0] == "confirm":
        src, sid, prop = a[1], a[2], a[3]
        feats, needs = "", ""
        i = 4
        while i < len(a):
            if a[i] == "--features":
                feats = a[i + 1]; i += 2
            elif a[i] == "--needs":
                needs = a[i + 1]; i += 2
            else:
                i += 1
        return confirm(src, sid, prop, feats, needs)
    if a[0] == "run":
        sid = a[1]
        tier, props, only = "quick", None, None
        i = 2
        while i < len(a):
            if a[i] == "--tier":
                tier = a[i + 1]; i += 2
            elif a[i] == "--props":
                props = a[i + 1]; i += 2
            elif a[i] == "--only":
                only = a[i + 1]; i += 2
            else:
                i += 1
        return run(sid, tier, props, only)
    if a[0] == "table":
        return table()
    return 64


if __name__ == "__main__":
    sys.exit(main())
