#!/usr/bin/env python3
"""designgen.py — refresh the generated parts of DESIGN.md (between `<!-- BEGIN GENERATED:x -->` / `<!-- END GENERATED:x -->`):
   catalogue : every registered harness per property (tier, N, error type, shape, what it is aimed at)
   seeded    : the seeded changes under /verif/seeded and which check reports them (from their meta.json)"""
import json
import os
import re
import sys

TOOLS = os.path.dirname(os.path.abspath(__file__))
VERIF = os.path.dirname(TOOLS)
sys.path.insert(0, TOOLS)


def catalogue():
    import cv
    reg = cv.load_registry()
    out = []
    props = sorted({p for r in reg for p in r["props"] if p.startswith("C")})
    for p in props:
        own = [r for r in reg if r["props"].get(p) and not r.get("sampled") and (r["harness"].split("::")[-1].startswith(p.lower()) or p in ("C03",) or True)]
        q = [r for r in own if r["props"][p] == "quick"]
        t = [r for r in own if r["props"][p] == "thorough"]
        out.append(f"\n**{p}** — quick: {len(q)} harnesses, thorough adds {len(t)}" + (f" (+ {sum(1 for r in reg if r.get('sampled') and r['props'].get(p))} sampled)" if any(r.get('sampled') and r['props'].get(p) for r in reg) else "") + "\n")
        out.append("| harness | tier | N | error | shape | aimed at |\n|---|---|---|---|---|---|")
        for r in q + t:
            if not r["harness"].split("::")[-1].startswith(p.lower()) and p == "C20":
                continue  # C20 thorough re-runs every other property's harness: listed under their own property
            shape = (r.get("shape") or "").replace("|", "\\|")
            aims = (r.get("aims") or "").replace("|", "\\|")
            out.append(f"| `{r['fn']}` | {r['props'][p][0].upper()} | {r.get('N')} | {r.get('error_type')} | {shape[:150]} | {aims[:170]} |")
    return "\n".join(out) + "\n"


def seeded():
    rows = ["| seeded change | property | needs, in order to manifest | reported by |", "|---|---|---|---|"]
    sd = os.path.join(VERIF, "seeded")
    for sid in sorted(os.listdir(sd)):
        mp = os.path.join(sd, sid, "meta.json")
        if not os.path.exists(mp):
            continue
        m = json.load(open(mp))
        det = m.get("detected_by")
        if det:
            d = "; ".join(det)
        elif m.get("not_detectable"):
            d = "**not reported** — " + m["not_detectable"]
        else:
            d = "**not reported**"
        needs = (m.get("needs_to_manifest") or "").replace("|", "\\|").replace("\n", " ")
        rows.append(f"| {sid} | {m['breaks_property']} | {needs[:260]} | {d} |")
    return "\n".join(rows) + "\n"


def main():
    p = os.path.join(VERIF, "DESIGN.md")
    s = open(p).read()
    for name, fn in (("catalogue", catalogue), ("seeded", seeded)):
        b, e = f"<!-- BEGIN GENERATED:{name} -->", f"<!-- END GENERATED:{name} -->"
        if b in s and e in s:
            s = s[:s.index(b) + len(b)] + "\n" + fn() + s[s.index(e):]
    open(p, "w").write(s)


if __name__ == "__main__":
    main()
