#!/usr/bin/env python3
"""Catalogue -> Rust harness sources (harness/src/gen/*.rs) + registry (harness/src/gen/registry.json).

Deterministic: the output depends only on the catalogue files. VERIF_SEED never changes what is generated; it
only selects, in cv.py, which of the enumerated `sampled` shapes are run in the thorough tier."""
import json
import os
import sys

HERE = os.path.dirname(os.path.abspath(__file__))
sys.path.insert(0, HERE)
GEN_DIR = os.path.join(os.environ.get("CV_HARNESS", os.path.join(os.path.dirname(HERE), "harness")), "src", "gen")

ERR_MODS = {"pe": "EmptyErr", "pc": "Cheap", "pt": "TagErr", "pb": "BitErr"}


class Shape:
    def __init__(self, name, node, fam, props, n=3, mod="pc", perms=None, sampled=False, timeout=600,
                 notes="", aims="", extra_unwind=0, body=None, small_alphabet=None,
                 always_accepts=False, pre=None, finding=None, node2=None, content=""):
        self.name = name
        self.node = node
        self.fam = fam            # refsem | contract | emis | far | check_mode
        self.props = props        # {prop: 'quick'|'thorough'}
        self.n = n
        self.mod = mod
        self.perms = perms
        self.sampled = sampled
        self.timeout = timeout
        self.notes = notes
        self.aims = aims
        self.extra_unwind = extra_unwind
        self.small_alphabet = small_alphabet
        self.always_accepts = always_accepts
        self.pre = pre            # Rust boolean over t[..]: an assumption on the symbolic parameters
        self.finding = finding    # id of the known finding this shape is expected to hit (documentation)
        self.node2 = node2        # second formulation (family "pair")
        self.content = content    # emis family: "ok" / "fail" / "okfail": also read the CONTENTS of the error list

    def perm_list(self):
        if self.perms is not None:
            return self.perms
        f = self.node.flags
        if self.fam == "far":
            # chumsky's reading first: a rejecting try_map supersedes the failures inside the match it rejects
            return [4, 0] if "try_map" in f else [0]
        ps = [0]
        if "sep_trail" in f:
            ps = [0, 1]
            if "sep_lead" in f:
                ps = [0, 1, 2, 3]
        return ps

    def unwind(self):
        # input loops (N+1), Vec growth / memcmp, the then_ignore(end()) tail; refsem recursion = AST depth;
        # refsem item loops are bounded by MAX_ITEMS(6)+1 only where the solver cannot cut them earlier.
        u = max(self.n + 2, self.node.depth + 1) + self.extra_unwind
        nodes = [self.node] + ([self.node2] if self.node2 is not None else [])
        if any(("rep" in n.flags or "sep" in n.flags) and n.sites > 0 for n in nodes):
            # emitters inside a repetition: the error list (and the loops that collect / drop it) can be longer
            # than the input — every emitter reports up to 4 copies
            u += 2
        return u


def draws(node, np, node2=None):
    out = []
    pm = dict(node.pmax)
    if node2 is not None:
        pm.update(node2.pmax)
    for i in range(np):
        if i in pm:
            out.append(f"s.upto({pm[i]})")
        else:
            out.append("s.u8()")
    return ", ".join(out)


def emit_shape(sh, prop_label):
    node = sh.node
    allp = set(node.params) | (set(sh.node2.params) if sh.node2 else set())
    np_ = max(allp, default=-1) + 1
    np_ = max(np_, 1)
    perms = ", ".join(f"{p}u8" for p in sh.perm_list())
    inp = f"Inp::<{sh.n}>::any(s)" if sh.small_alphabet is None else f"Inp::<{sh.n}>::any_upto(s, {sh.small_alphabet})"
    pre = f"    crate::sym::assume({sh.pre});\n" if sh.pre else ""
    head = f"""
/// {sh.name}: {node.desc}
pub fn {sh.name}_body<S: Src>(s: &mut S) {{
    use crate::prims::{sh.mod}::*;
    let t: [u8; {np_}] = [{draws(node, np_, sh.node2)}];
{pre}    let inp = {inp};
    let x = inp.get();
    let p = {node.rs};
    const AST: G = {node.ast};
"""
    derived = node.all and (sh.node2 is None or sh.node2.all)
    aa = "true" if (sh.always_accepts or derived) else "false"
    if sh.fam == "refsem":
        body = f"    crate::fam_refsem!(\"{prop_label}\", p, AST, x, t, [{perms}], {aa});\n"
    elif sh.fam == "contract":
        body = f"    crate::fam_contract!(\"{prop_label}\", p, AST, x, t, [{perms}], {aa});\n"
    elif sh.fam == "emis":
        assert all(i <= 3 for i in node.ids), (sh.name, "validate ids must be <= 3 (weights 1, 2, 4)")
        cok = "ok" in sh.content
        if cok:
            assert node.sites <= 1 and all(i == 1 for i in node.ids), (sh.name, "content check needs one emitting site of weight 1")
        body = (f"    crate::fam_emis!(\"{prop_label}\", p, AST, x, t, [{perms}], {'true' if cok else 'false'}, "
                f"{'true' if 'fail' in sh.content else 'false'}, {aa});\n")
    elif sh.fam == "far_found":
        body = f"    crate::fam_far_found!(\"{prop_label}\", p, AST, x, t);\n"
    elif sh.fam == "far":
        body = f"    crate::fam_far!(\"{prop_label}\", p, AST, x, t, [{perms}]);\n"
    elif sh.fam == "pair":
        body = f"    let _ = &AST;\n    let q = {sh.node2.rs};\n    crate::fam_pair!(\"{prop_label}\", p, q, x, {aa});\n"
    elif sh.fam == "check_mode":
        body = f"    let _ = &AST; let _ = &t;\n    crate::fam_check_mode!(\"{prop_label}\", p, x);\n"
    else:
        raise ValueError(sh.fam)
    return head + body + "}\n"


def generate(families):
    os.makedirs(GEN_DIR, exist_ok=True)
    registry = []
    mods = []
    for fam_name, label, shapes in families:
        mods.append(fam_name)
        src = ["// GENERATED by tools/gen.py from tools/catalogue.py — do not edit.",
               "#![allow(unused_imports, unused_parens, clippy::all)]",
               "use crate::refsem::{Cnt, Flag, G};",
               "use crate::sym::{Inp, Src};", ""]
        names = set()
        for sh in shapes:
            assert sh.name not in names, sh.name
            names.add(sh.name)
            src.append(emit_shape(sh, label))
            registry.append({
                "harness": f"gen::{fam_name}::{sh.name}",
                "fn": sh.name,
                "family": sh.fam,
                "props": sh.props,
                "N": sh.n,
                "unwind": sh.unwind(),
                "timeout_s": sh.timeout,
                "error_type": ERR_MODS[sh.mod],
                "shape": node_desc(sh),
                "symbolic": symbolic_desc(sh),
                "assumptions": assumptions(sh),
                "perms": sh.perm_list(),
                "sampled": sh.sampled,
                "aims": sh.aims,
                "notes": sh.notes,
                "finding": sh.finding,
                "emission_sites": sh.node.sites,
            })
        src.append("crate::harnesses! {")
        for sh in shapes:
            src.append(f"    {sh.name} [{sh.unwind()}] = {sh.name}_body;")
        src.append("}")
        write_if_changed(os.path.join(GEN_DIR, f"{fam_name}.rs"), "\n".join(src) + "\n")
    modrs = ["// GENERATED by tools/gen.py — do not edit."]
    for m in mods:
        modrs.append(f"pub mod {m};")
    modrs.append("pub fn extend(v: &mut Vec<(&'static str, crate::Body)>) {")
    for m in mods:
        modrs.append(f"    v.extend_from_slice({m}::REG);")
    modrs.append("}")
    write_if_changed(os.path.join(GEN_DIR, "mod.rs"), "\n".join(modrs) + "\n")
    write_if_changed(os.path.join(GEN_DIR, "registry.json"), json.dumps(registry, indent=1, sort_keys=True) + "\n")
    return registry


def node_desc(sh):
    if sh.node2 is not None:
        return sh.node.desc + "   ===   " + sh.node2.desc
    return sh.node.desc


def symbolic_desc(sh):
    node = sh.node
    np_ = max(max(node.params, default=-1) + 1, 1)
    ps = []
    for i in range(np_):
        if i in node.pmax:
            ps.append(f"t{i}: u8 in 0..={node.pmax[i]} (count)")
        else:
            ps.append(f"t{i}: u8")
    alpha = "u8" if sh.small_alphabet is None else f"0..={sh.small_alphabet}"
    return {"params": ps, "input": f"[{alpha}; {sh.n}] with symbolic length 0..={sh.n}"}


def assumptions(sh):
    a = [f"input length <= {sh.n}"]
    for i, v in sorted(sh.node.pmax.items()):
        a.append(f"t{i} <= {v}")
    if sh.small_alphabet is not None:
        a.append(f"input tokens <= {sh.small_alphabet}")
    if sh.pre:
        a.append(sh.pre)
    return a


def write_if_changed(path, content):
    try:
        with open(path) as f:
            if f.read() == content:
                return
    except FileNotFoundError:
        pass
    with open(path, "w") as f:
        f.write(content)


def main():
    import catalogue
    reg = generate(catalogue.families())
    print(f"gen: {len(reg)} harnesses in {len(catalogue.families())} modules")


if __name__ == "__main__":
    main()
