#!/bin/bash
# runall.sh [tier] [props...] — run every registered check in sequence, record exit codes (development aid)
cd "$(dirname "$0")/.."
tier=${1:-quick}; shift
props=${@:-C01 C02 C03 C04 C05 C06 C07 C08 C09 C10 C11 C12 C13 C14 C15 C16 C17 C18 C19 C20}
mkdir -p .cache/all
for p in $props; do
  t0=$(date +%s)
  python3 tools/cv.py check $p --tier $tier > .cache/all/$p-$tier.out 2> .cache/all/$p-$tier.err
  rc=$?
  echo "$p $tier rc=$rc $(( $(date +%s) - t0 ))s $(grep -c '^VIOLATION' .cache/all/$p-$tier.out) viol; $(grep '^SUMMARY' .cache/all/$p-$tier.out)"
done
