"""Per-property bounds / not-covered statements copied into the evidence files."""
META = {
    "C01": {
        "bounds": {
            "quick": "N=3 tokens (u8, all 256 values), all symbolic grammar parameters t_i in u8; core catalogue shapes",
            "thorough": "core shapes at N=3 and N=4 plus a VERIF_SEED-selected subset of the 1600 generated depth-2 trees at N=3",
        },
        "not_covered": ["inputs longer than N", "grammar shapes outside the catalogue (the shape is not symbolic)",
                        "token types other than u8 (and char in the &str harnesses)"],
    },
}
