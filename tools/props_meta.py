"""Per-property bounds / not-covered statements copied into the evidence files (and the manifest)."""

COMMON_NOT = ["inputs longer than N", "grammar shapes outside the listed ones (the shape is a Rust type: enumerated, not symbolic)"]

META = {
    "C01": {
        "bounds": {"quick": "N=3 tokens (u8, all 256 values), all symbolic grammar tokens t_i in u8; 21 core shapes",
                   "thorough": "core shapes at N=3 and N=4"},
        "not_covered": COMMON_NOT + ["token types other than u8 (char on &str is exercised under C07/C10/C14/C20)"],
    },
    "C02": {
        "bounds": {"quick": "N=3..4 tokens; at_least/at_most/exactly symbolic in 0..=4; allow_leading/allow_trailing symbolic; item and separator tokens symbolic",
                   "thorough": "adds N=5 for repeated/separated_by, nested repetition, two-token items at N=4/5"},
        "not_covered": COMMON_NOT + ["counts above 4", "items that can match the empty string", "String/() containers"],
    },
    "C03": {
        "bounds": {"quick": "N=3; contract asserted on parse() and check() of every shape incl. lazy(), recovery and validation shapes",
                   "thorough": "adds N=4 shapes and skip_until recovery"},
        "not_covered": COMMON_NOT,
    },
    "C04": {
        "bounds": {"quick": "N=3; one value-dependent ingredient per output-eliding combinator (11 paired formulations) + check() vs parse() on 3 shapes",
                   "thorough": "all 66 (combinator x ingredient) pairs; 10 check-vs-parse shapes, N up to 4"},
        "not_covered": COMMON_NOT + ["error CONTENTS are compared through the length of the error list (every emitter reports a distinct number of copies) — not field by field", "pratt / nested_in / context shapes in check mode beyond those under C15/C20"],
    },
    "C05": {
        "bounds": {"quick": "N=3..4; one shape per backtracking site with an emitter inside the abandoned and inside the kept part",
                   "thorough": "adds N=4/5, sites nested pairwise"},
        "not_covered": COMMON_NOT + ["the ORDER of emissions from different sites (only the surviving SET is decided: emitter k reports 2^(k-1) copies and the list length is compared; order and spans only where a single site emits)", "emitters inside the lookahead part of and_is (unspecified)"],
    },
    "C06": {
        "bounds": {"quick": "N=3..4; error type BitErr (expected set = bit mask, merge = set union)", "thorough": "adds N=4 depth shapes"},
        "not_covered": COMMON_NOT + ["everything specific to Rich (its merge / merge_expected_found / replace_expected_found): CBMC runs out of memory on Rich even for one isolated merge", "grammars with `not` (excluded by the property)", "the position attributed to a rejecting filter (permissive corner)", "Simple"],
    },
    "C07": {
        "bounds": {"quick": "&str: up to 3 characters from {a, e-acute, euro sign, emoji} (1..4 bytes); &[u8]: N=3; Input::map (by value and by reference) and IterInput: 3 tokens with symbolic gaps 0..=3 and widths 1..=3, end-of-input span beyond the last token (gap 0..=2, width 0..=2)",
                   "thorough": "same (plus every C01/C02 digest, which embeds the span of every node)"},
        "not_covered": COMMON_NOT + ["custom Span types", "pratt fold callbacks' spans", "Stream (spans are plain indices: C10)"],
    },
    "C08": {
        "bounds": {"quick": "N=3..4; via_parser at top level / inside or (1st, 2nd alternative) / inside repeated / under or_not / nested; skip_until; skip_then_retry_until",
                   "thorough": "adds N=4/5"},
        "not_covered": COMMON_NOT + ["nested_delimiters (recursive + boxed: not within reach in this round)", "the recovered error's expected set (TagErr carries position only)"],
    },
    "C09": {
        "bounds": {"quick": "whole parser: 2-operator tables {prefix(2), infix(left 1)} (tuple form, and Vec of boxed operators) and {infix(left 1), postfix(3)} at N=3, arbitrary bytes; one operator step (infix / prefix / postfix) with SYMBOLIC power < 2^15, associativity and min_power, recursion stubbed",
                   "thorough": "adds the 3-operator table {prefix, infix, postfix} at N=3 and {infix left(1), infix left|right(2)} at N=5"},
        "not_covered": ["tables of 4..6 operators, strings of length 8", "3-operator tables beyond N=3, {prefix(P), infix} at N=4 and the nested-prefix table at N=5 (do not finish within 3000 s)", "symbolic powers in the whole-parser query (unrolling of the recursive closure calls explodes: measured timeouts)", "array tables; Vec / boxed tables beyond the one 2-operator table"],
    },
    "C10": {
        "bounds": {"quick": "N=3; &[u8] vs IterInput, Input::map, map_span, &[u8; 3], BoxedStream over a 3-token array, &str (ASCII); Stream over a pull-counting plain iterator: pulls <= |x| and acceptance", "thorough": "same"},
        "not_covered": ["IoInput (BufReader + io::Error: measured timeout)", "Graphemes (unicode-segmentation tables: measured timeout)", "bytes::Bytes", "Stream inputs longer than one 512-token batch (515-token harness: timeout)", "outputs / spans / error positions of a Stream with SYMBOLIC length (out of memory at 30 GB; compared for a fixed-length BoxedStream)", "with_context (different span type)"],
    },
    "C11": {
        "bounds": {"quick": "N=3; memoized parser shared by two alternatives (boxed clone), memoized at different positions, under map_err / recover_with, left-recursive grammar",
                   "thorough": "same"},
        "not_covered": COMMON_NOT + ["hashbrown is replaced by an association-list stand-in with map semantics (the real SwissTable/foldhash code is not encodable)"],
    },
    "C12": {
        "bounds": {"quick": "N=3 (nesting depth <= 1 plus the failing deeper attempts), declare/define (self-recursive and mutually recursive), clone / boxed clone / drop", "thorough": "adds recursive() itself at N=2 (one nesting level)"},
        "not_covered": ["stacker / nesting 10^6 deep (FFI / inline assembly; far outside any bound)", "define() twice (covered by the pinned test recursive_define_twice)", "Location::caller is stubbed in the declare/define harnesses", "recursive() beyond N=2 (its Rc<dyn Parser> handle defeats constant propagation: measured timeouts)"],
    },
    "C13": {
        "bounds": {"quick": "histories of 2 parses with independent symbolic inputs of length <= 2 on one parser value; wrappers clone, &, Box, Rc, Arc, boxed(), Either; clone / boxed clone of a recursive parser after the drop of the original", "thorough": "same"},
        "not_covered": ["threads / schedules (Kani does not model concurrency)", "Cache", "histories longer than 2", "a recursive + memoized parser reused (out of memory at 12 GB in three sizes)"],
    },
    "C14": {
        "bounds": {"quick": "arbitrary bytes N=3 (keyword: 4) for int(10), digits(16), ascii::ident, keyword, whitespace, inline_whitespace, padded; &str of <= 3 chars from the 7 terminator characters + 'a' for newline; &str vs &[u8] on 2 ASCII bytes; ascii::ident on &str with non-ASCII look-alikes; unicode::ident on &str whose first character is ANY scalar value",
                   "thorough": "adds int(r) for r in {2, 8, 16, 36}"},
        "not_covered": ["regex (regex-automata is not encodable)", "unicode::keyword; the XID tables themselves (unicode::ident is decided against chumsky's own per-character classification)", "strings longer than the bound"],
    },
    "C15": {
        "bounds": {"quick": "N=3..4; length-prefixed (collecting and unit paths), static cap under configure, delimiter echo by value and by reference in parse and check mode, nearest provider (nested / repeated / abandoned alternative), try_configure, map_ctx", "thorough": "same"},
        "not_covered": COMMON_NOT + ["recursion under a context provider"],
    },
    "C16": {
        "bounds": {"quick": "token trees: <= 2 outer tokens, each a leaf or a group of <= 2 leaves (depth 2); a group followed by <= 2 leaves with the error-routing grammar; chains of depth 3 and depth 4 (nested_in inside nested_in inside nested_in) with <= 1 / 2 / 2 tokens per level", "thorough": "same"},
        "not_covered": ["more than one group per level at depth 3..4", "gapped spans on nested inputs", "the position of an INNER failure in the outer error"],
    },
    "C17": {
        "bounds": {"quick": "N=3; BitErr; labelled / as_context on a two-token parser in a choice and after an optional that left a pending error; map_err / map_err_with_state on failing and on succeeding parsers; nested labels (thorough)", "thorough": "adds nested labels"},
        "not_covered": COMMON_NOT + ["Rich::label_with / in_context themselves (see C06)", "labels inserted at every subset of nodes"],
    },
    "C18": {
        "bounds": {"quick": "N=3..4; snapshot Inspector observed in map_with / select / foldl_with closures after or, or_not, repeated, separated_by, rewind, not, and_is, recover_with (3 strategies), padded (skip_while), with_state", "thorough": "same"},
        "not_covered": COMMON_NOT + ["&str and Stream inputs", "pratt"],
    },
    "C19": {
        "bounds": {"quick": "N=3..4; drop-counting outputs through group array / tuple, collect_exactly [D;2] and Box<[D;2]> (running short and iterator error), Vec, foldl, abandoned alternative, recovery, lookahead; clone-counting tokens; parse and check", "thorough": "same"},
        "not_covered": COMMON_NOT,
    },
    "C20": {
        "bounds": {"quick": "N=3; wrapper x failing-inner matrix with EmptyErr (8 wrappers) and Cheap (4 wrappers), inner kind symbolic; &str from 2 arbitrary Unicode scalar values; every other harness of every other property also carries Kani's panic / overflow / bounds / pointer checks and unwinding assertions",
                   "thorough": "adds the union of all other properties' harnesses and text parsers on arbitrary bytes"},
        "not_covered": ["time polynomial in the input (not a safety property of a bounded run)", "stack exhaustion (no stack model; stacker not encodable)", "debug-only progress assertions (harnesses are built with debug-assertions off)"],
    },
}
