"""Registry entries for the hand-written harnesses in harness/src/hand*.rs (the generated ones come from
gen.py). Same record format as gen.registry.json."""


def H(fn, props, shape, n=3, unwind=10, timeout=600, family="hand", err="Cheap", symbolic=None, assumptions=None,
      aims="", module="hand", expect_fail=False, notes=""):
    return {
        "harness": f"{module}::{fn}", "fn": fn, "family": family, "props": props, "N": n, "unwind": unwind,
        "timeout_s": timeout, "error_type": err, "shape": shape,
        "symbolic": symbolic or {"input": f"[u8; {n}] with symbolic length 0..={n}"},
        "assumptions": assumptions or [f"input length <= {n}"], "perms": [0], "sampled": False, "aims": aims,
        "notes": notes, "expect_fail": expect_fail,
    }


Q, T = "quick", "thorough"


def entries():
    e = []
    e.append(H("smoke", {"C01": Q}, "<(<(t0 t1)>#1 | <(t2 <t3?>)>#2)> <any>", unwind=12,
               symbolic={"params": ["t0..t3: u8"], "input": "[u8; 3] with symbolic length 0..=3"},
               aims="end-to-end smoke of the refsem-vs-chumsky mechanism"))
    e.append(H("selftest_fail", {"SELFTEST": Q}, "(t0 t0) must never accept — deliberately false", n=2, unwind=6,
               expect_fail=True, aims="runner self-test: failure path, playback extraction, native replay"))
    return e
