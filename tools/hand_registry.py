"""Registry entries for the hand-written harnesses in harness/src/hand/*.rs, read from their doc comments:

    /// @harness props=C07:Q,C20:T n=3 err=Cheap timeout=600 [expect_fail=1] [finding=F9]
    /// @shape   <rendering of the grammar / scenario>
    /// @symbolic <what is symbolic>            (optional, may repeat)
    /// @assume  <assumption>                   (optional, may repeat)
    /// @aims    <what it is aimed at>
    pub fn NAME_body<S: Src>(s: &mut S) { .. }

and the unwind bound from the module's `harnesses! { NAME [unwind] = NAME_body; }` list. Same record format as
the generated registry."""
import glob
import os
import re

HERE = os.path.dirname(os.path.abspath(__file__))
HAND = os.path.join(os.path.dirname(HERE), "harness", "src", "hand")

TIER = {"Q": "quick", "T": "thorough"}


def entries():
    out = []
    for path in sorted(glob.glob(os.path.join(HAND, "*.rs"))):
        mod = os.path.basename(path)[:-3]
        if mod == "mod":
            continue
        src = open(path).read()
        unwinds = {m.group(1): int(m.group(2)) for m in re.finditer(r"^\s*([a-z0-9_]+) \[(\d+)\] = \1_body;", src, re.M)}
        for m in re.finditer(r"((?:^///.*\n)+)pub fn ([a-z0-9_]+)_body<", src, re.M):
            doc, fn = m.group(1), m.group(2)
            if "@harness" not in doc:
                continue
            meta = {"shape": "", "aims": "", "symbolic": [], "assume": []}
            kv = {}
            for line in doc.splitlines():
                line = line[3:].strip()
                if line.startswith("@harness"):
                    for tok in line.split()[1:]:
                        k, v = tok.split("=", 1)
                        kv[k] = v
                elif line.startswith("@shape"):
                    meta["shape"] += (" " if meta["shape"] else "") + line[6:].strip()
                elif line.startswith("@aims"):
                    meta["aims"] += (" " if meta["aims"] else "") + line[5:].strip()
                elif line.startswith("@symbolic"):
                    meta["symbolic"].append(line[9:].strip())
                elif line.startswith("@assume"):
                    meta["assume"].append(line[7:].strip())
            assert fn in unwinds, f"{fn}: not listed in harnesses! of {path}"
            props = {}
            for pt in kv["props"].split(","):
                p, t = pt.split(":")
                props[p] = TIER[t]
            n = int(kv.get("n", 3))
            out.append({
                "harness": f"hand::{mod}::{fn}", "fn": fn, "family": "hand:" + mod, "props": props, "N": n,
                "unwind": unwinds[fn], "timeout_s": int(kv.get("timeout", 600)), "error_type": kv.get("err", "Cheap"),
                "shape": meta["shape"],
                "symbolic": {"params": meta["symbolic"], "input": kv.get("input", f"[u8; {n}] with symbolic length 0..={n}")},
                "assumptions": [f"input length <= {n}"] + meta["assume"], "perms": [0], "sampled": False,
                "aims": meta["aims"], "notes": "", "expect_fail": kv.get("expect_fail") == "1", "finding": kv.get("finding"),
            })
    return out


if __name__ == "__main__":
    for e in entries():
        print(e["harness"], e["props"], e["unwind"])
