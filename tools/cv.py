#!/usr/bin/env python3
"""cv.py — runner for the solver-based (Kani/CBMC) checks of zesterer/chumsky in /repo.

  cv.py setup                       build everything from files on disk (offline)
  cv.py check Cxx [--tier quick|thorough]
  cv.py replay <replay.json>        re-run a recorded counterexample natively against /repo
  cv.py run <harness>...            run arbitrary harnesses (debugging; writes no evidence)
  cv.py sweep [<harness>...]        native oracle self-test over small alphabets (sampling; decides nothing)

Exit codes of `check`: 0 held on everything explored (KNOWN-FINDING lines allowed), 1 VIOLATION line(s),
2 inconclusive (timeout, out of memory, failed unwinding assertion, vacuous harness, non-reproducing
counterexample, build failure) — an inconclusive run is never reported as success.
"""
import fcntl
import glob
import hashlib
import json
import os
import random
import re
import resource
import shutil
import subprocess
import sys
import time

TOOLS = os.path.dirname(os.path.abspath(__file__))
VERIF = os.path.dirname(TOOLS)
# CV_REPO / CV_HARNESS / CV_CACHE: used only by tools/mutant.py (sensitivity runs against a scratch worktree of
# /repo with a seeded change applied); the registered checks never set them and always read /repo itself
HARNESS = os.environ.get("CV_HARNESS", os.path.join(VERIF, "harness"))
CACHE = os.environ.get("CV_CACHE", os.path.join(VERIF, ".cache"))
EVID = os.path.join(VERIF, "evidence")
REPLAYS = os.path.join(EVID, "replays") if "CV_CACHE" not in os.environ else os.path.join(CACHE, "replays")
KANI_TARGET = os.path.join(CACHE, "kani")
NATIVE_TARGET = os.path.join(CACHE, "native")
REPO = os.environ.get("CV_REPO", "/repo")

sys.path.insert(0, TOOLS)

ENV = dict(os.environ)
ENV.update({"CARGO_NET_OFFLINE": "true", "CARGO_TERM_COLOR": "never"})
ENV.pop("RUSTUP_TOOLCHAIN", None)
ENV.pop("RUSTFLAGS", None)

# memory: every CBMC process gets RLIMIT_AS = MEM_LIMIT_KB; JOBS * MEM_LIMIT_KB stays below the 62 GB of this
# machine (no swap: an over-commit gets the Kani driver killed and loses the whole run)
MEM_LIMIT_KB = int(os.environ.get("CV_MEM_KB", 7_000_000))
JOBS = int(os.environ.get("CV_JOBS", 8))
THOROUGH_MEM_KB = int(os.environ.get("CV_THOROUGH_MEM_KB", 14_000_000))
THOROUGH_JOBS = int(os.environ.get("CV_THOROUGH_JOBS", 4))
# concrete playback runs one harness at a time and needs far more memory than the verdict alone (CBMC builds the
# full trace): measured 7 GB not enough (every check comes back "Error", no test is printed) where the verdict took 2 GB
PLAYBACK_MEM_KB = int(os.environ.get("CV_PLAYBACK_MEM_KB", 30_000_000))


def log(*a):
    print("[cv]", *a, file=sys.stderr, flush=True)


# ----------------------------------------------------------------------------------------------------
# registry
def load_registry():
    import gen
    import catalogue
    import hand_registry
    reg = gen.generate(catalogue.families())
    reg = list(reg) + hand_registry.entries()
    byname = {}
    for r in reg:
        assert r["harness"] not in byname, r["harness"]
        byname[r["harness"]] = r
    return reg


def select(reg, prop, tier, seed):
    chosen = []
    sampled = []
    for r in reg:
        t = r["props"].get(prop)
        if t is None:
            continue
        # C20 thorough = C20's own harnesses + a VERIF_SEED-selected sample of every other property's harnesses (each
        # of which carries Kani's panic / overflow / bounds / pointer checks and the unwinding assertions); the whole
        # union (~230 harnesses) is what the other properties' own thorough checks run
        foreign = prop == "C20" and t == "thorough" and not r["fn"].startswith("c20_")
        if r.get("sampled") or foreign:
            if tier == "thorough":
                sampled.append(r)
            continue
        if t == "quick" or tier == "thorough":
            chosen.append(r)
    if sampled:
        k = int(os.environ.get("CV_SAMPLE", 40))
        rnd = random.Random(seed * 1000003 + int(prop[1:]))
        sampled.sort(key=lambda r: r["harness"])
        chosen += rnd.sample(sampled, min(k, len(sampled)))
    return chosen


# ----------------------------------------------------------------------------------------------------
# running kani
_MEM = {"kb": MEM_LIMIT_KB}


def limit_mem():
    resource.setrlimit(resource.RLIMIT_AS, (_MEM["kb"] * 1024, _MEM["kb"] * 1024))


def limit_cbmc_children(target_dir, lim_kb, done):
    for pid in os.listdir("/proc"):
        if not pid.isdigit() or pid in done:
            continue
        try:
            with open(f"/proc/{pid}/cmdline", "rb") as f:
                cl = f.read().split(b"\0")
        except OSError:
            continue
        if not cl or os.path.basename(cl[0]) not in (b"cbmc", b"goto-instrument"):
            continue
        if not any(target_dir.encode() in a for a in cl):
            continue
        try:
            resource.prlimit(int(pid), resource.RLIMIT_AS, (lim_kb * 1024, lim_kb * 1024))
            done.add(pid)
        except (OSError, ValueError):
            pass


class Lock:
    def __enter__(self):
        os.makedirs(CACHE, exist_ok=True)
        self.f = open(os.path.join(CACHE, "lock"), "w")
        fcntl.flock(self.f, fcntl.LOCK_EX)
        return self

    def __exit__(self, *a):
        fcntl.flock(self.f, fcntl.LOCK_UN)
        self.f.close()


def sync_lockfile():
    """The harness crate has its own Cargo.lock (path dep on /repo + hashbrown stand-in); keep it usable
    offline. It is committed; regenerate only if cargo says it is out of date."""
    lock = os.path.join(HARNESS, "Cargo.lock")
    if not os.path.exists(lock):
        shutil.copy(os.path.join(REPO, "Cargo.lock"), lock)
        subprocess.run(["cargo", "generate-lockfile", "--offline"], cwd=HARNESS, env=ENV, check=False,
                       stdout=subprocess.DEVNULL, stderr=subprocess.DEVNULL)


def run_kani(harnesses, timeout_s, tag, jobs=None, playback=False):
    """Run `cargo kani` once for a set of harnesses. Returns (results_by_harness, raw_stdout, wall_s)."""
    os.makedirs(os.path.join(CACHE, "runs"), exist_ok=True)
    out_json = os.path.join(CACHE, "runs", f"{tag}.json")
    out_log = os.path.join(CACHE, "runs", f"{tag}.log")
    if os.path.exists(out_json):
        os.remove(out_json)
    cmd = ["cargo", "kani", "--target-dir", KANI_TARGET, "--exact"]
    for h in harnesses:
        cmd += ["--harness", h]
    cmd += ["-Z", "unstable-options", "--harness-timeout", f"{int(timeout_s)}s", "--export-json", out_json,
            "-Z", "stubbing"]
    if playback:
        cmd += ["-Z", "concrete-playback", "--concrete-playback=print", "--output-format", "terse"]
    else:
        j = jobs or JOBS
        j = max(1, min(j, len(harnesses)))
        cmd += ["-j", str(j), "--output-format", "terse"]
    t0 = time.time()
    # The address-space limit is put on the CBMC processes only (found by their goto-binary path under this run's
    # target directory, limited with prlimit as soon as they appear): a limit inherited from the top would also hit
    # kani-driver itself, which holds every harness' CBMC output in memory and died of it with `-j 8` (measured:
    # "memory allocation of 2319 bytes failed", all verdicts of the batch lost).
    lim_kb = max(_MEM["kb"], PLAYBACK_MEM_KB) if playback else _MEM["kb"]
    with open(out_log, "w") as lf:
        p = subprocess.Popen(cmd, cwd=HARNESS, env=ENV, stdout=lf, stderr=subprocess.STDOUT)
        limited = set()
        while p.poll() is None:
            limit_cbmc_children(KANI_TARGET, lim_kb, limited)
            time.sleep(0.3)
    wall = time.time() - t0
    raw = open(out_log, errors="replace").read()
    results = parse_results(harnesses, out_json, raw)
    return results, raw, wall


def rerun_lost(results, raw, names, byname, tmax, tag, jobs):
    """kani-driver 0.68 can panic while parsing CBMC's output (`missing field sourceLocation / description`, seen
    when a CBMC process is killed by the memory limit): the whole batch then loses its JSON export and the harnesses
    that were still running lose their verdict. Re-run every harness left without a verdict on its own (a fresh
    driver each, in parallel), so that one bad harness cannot take the others with it."""
    lost = [h for h in names if results[h]["status"] == "NO_RESULT"]
    if not lost or "panicked at kani-driver" not in raw or len(names) == 1:
        return results
    log(f"kani-driver crashed; re-running {len(lost)} harness(es) without a verdict one by one")
    from concurrent.futures import ThreadPoolExecutor

    def one(h):
        r, _, _ = run_kani([h], tmax, f"{tag}-solo-{byname[h]['fn']}", jobs=1)
        return h, r[h]

    with ThreadPoolExecutor(max_workers=max(1, min(jobs, len(lost)))) as ex:
        for h, r in ex.map(one, lost):
            r["note"] = (r.get("note", "") + " (re-run alone after a kani-driver crash)").strip()
            results[h] = r
    return results


def parse_results(harnesses, out_json, raw):
    res = {h: {"harness": h, "status": "NO_RESULT", "failed": [], "covers": {}, "stats": {}, "functions": [],
               "duration_s": None, "n_checks": 0} for h in harnesses}
    data = None
    if os.path.exists(out_json):
        try:
            data = json.load(open(out_json))
        except Exception as e:  # noqa
            data = None
    if data:
        stats = {c["harness_id"]: (c.get("cbmc_stats") or {}) for c in data.get("cbmc", [])}
        for r in data.get("verification_results", {}).get("results", []):
            h = r["harness_id"]
            if h not in res:
                continue
            e = res[h]
            e["duration_s"] = r.get("duration_ms", 0) / 1000.0
            e["stats"] = stats.get(h) or {}
            checks = r.get("checks", [])
            e["n_checks"] = len(checks)
            funcs = set()
            for c in checks:
                st, cat = c.get("status"), c.get("category")
                fn = c.get("function", "")
                if "chumsky::" in fn:
                    funcs.add(short_fn(fn))
                if cat == "cover":
                    e["covers"][c.get("description")] = st
                elif st not in ("Success", "Unreachable"):
                    e["failed"].append({"description": c.get("description"), "function": short_fn(fn),
                                        "status": st, "category": cat,
                                        "location": "%s:%s" % (c.get("location", {}).get("file"), c.get("location", {}).get("line"))})
            e["functions"] = sorted(funcs)
            e["status"] = "SUCCESS" if r.get("status") == "Success" else "FAILURE"
    # if the driver died before writing the JSON export, recover the per-harness verdicts from its terse log
    # (enough to classify HOLDS / failed; the check names are not available then => a failure is inconclusive)
    if not data:
        for h, b in parse_terse_log(raw).items():
            if h in res and "v" in b:
                e = res[h]
                e["duration_s"] = b.get("t")
                if b["v"] == "SUCCESSFUL":
                    e["status"] = "SUCCESS"
                    e["covers"] = {"(from terse log)": "Satisfied"} if b.get("covers_ok", True) else {"(from terse log)": "Unsatisfiable"}
                    e["n_checks"] = b.get("n", 0)
                else:
                    e["note"] = "failed / out of memory (driver log only)" if not b.get("oom") else "cbmc out of memory"
    # stdout fallback / cross-check (timeouts, crashes, OOM are only visible there)
    for h in harnesses:
        e = res[h]
        if e["status"] == "NO_RESULT":
            m = re.search(r"(Thread \d+: )?Checking harness %s\.\.\." % re.escape(h), raw)
            if re.search(r"[Tt]imed? ?out", raw) or "TIMEOUT" in raw:
                e["note"] = "timeout reported in log"
            if "CBMC failed" in raw or "status 6" in raw or "Status: ERROR" in raw:
                e["note"] = (e.get("note", "") + " cbmc-failed/oom reported in log").strip()
            if not m:
                e["note"] = (e.get("note", "") + " harness never started (build failure?)").strip()
    return res


def parse_terse_log(raw):
    cur, out, blk = {}, {}, None
    for ln in raw.splitlines():
        m = re.match(r"(?:Thread (\d+): )?Checking harness (\S+)\.\.\.", ln)
        if m:
            cur[m.group(1) or "0"] = m.group(2)
            if m.group(1) is None:
                blk = out.setdefault(m.group(2), {})
            continue
        m = re.match(r"Thread (\d+): ?$", ln)
        if m:
            h = cur.get(m.group(1))
            blk = out.setdefault(h, {}) if h else None
            continue
        if blk is None:
            continue
        if ln.startswith("VERIFICATION:-"):
            blk["v"] = ln.split("- ")[1].strip()
        m = re.match(r"Verification Time: ([\d.]+)s", ln)
        if m:
            blk["t"] = float(m.group(1))
        if "out of memory" in ln or "CBMC failed" in ln:
            blk["oom"] = True
        m = re.match(r" \*\* (\d+) of (\d+) failed", ln)
        if m:
            blk["n"] = int(m.group(2))
        m = re.match(r" \*\* (\d+) of (\d+) cover properties satisfied", ln)
        if m:
            blk["covers_ok"] = m.group(1) == m.group(2)
    return out


_FN_RE = re.compile(r"^<&?(?:mut )?(chumsky::[A-Za-z_:]+)(?:<.*>)? as (chumsky::[A-Za-z_:]+)(?:<.*>)?>::([a-z_0-9]+)(?:::<(.*)>)?$")


def short_fn(fn):
    """`<chumsky::combinator::Map<...> as chumsky::Parser<...>>::go::<chumsky::private::Emit>` ->
       `chumsky::combinator::Map as Parser::go<Emit>`"""
    m = _FN_RE.match(fn)
    if m:
        ty, tr, meth, gen_ = m.groups()
        g = ""
        if gen_ and ("private::Emit" in gen_ or "private::Check" in gen_):
            g = "<Emit>" if "Emit" in gen_ else "<Check>"
        return f"{ty} as {tr.split('::')[-1]}::{meth}{g}"
    # strip generic arguments
    out, depth = [], 0
    for ch in fn:
        if ch == "<":
            depth += 1
        elif ch == ">":
            depth -= 1
        elif depth == 0:
            out.append(ch)
    s = "".join(out).replace("::::", "::")
    return s if len(s) < 160 else s[:160]


def classify(e):
    """-> (verdict, reason) with verdict in HOLDS | FAILED | INCONCLUSIVE"""
    if e["status"] == "NO_RESULT":
        return "INCONCLUSIVE", e.get("note", "no result (timeout / out of memory / crash)")
    fails = e["failed"]
    unw = [f for f in fails if "unwinding assertion" in (f["description"] or "")]
    unsupported = [f for f in fails if f.get("category") == "unsupported_construct" or "is not currently supported" in (f["description"] or "")]
    real = [f for f in fails if f not in unw and f not in unsupported and f["status"] == "Failure"]
    undet = [f for f in fails if f["status"] not in ("Failure",)]
    if real:
        if unw:
            # a counterexample found below the bound is still a counterexample; replay decides
            return "FAILED", "assertion failed (and unwinding incomplete)"
        return "FAILED", "assertion failed"
    if unw:
        return "INCONCLUSIVE", "unwinding assertion failed: bound too small"
    if unsupported:
        return "INCONCLUSIVE", "unsupported construct reachable: " + unsupported[0]["description"][:80]
    if undet:
        return "INCONCLUSIVE", "undetermined checks: " + str(undet[0]["status"])
    if e["status"] != "SUCCESS":
        return "INCONCLUSIVE", "kani reported failure without a failed check"
    bad_covers = [k for k, v in e["covers"].items() if v != "Satisfied"]
    if bad_covers:
        return "INCONCLUSIVE", "vacuity witness not satisfied: " + ",".join(bad_covers)
    return "HOLDS", ""


# ----------------------------------------------------------------------------------------------------
# counterexample extraction and native replay
def extract_playback(raw):
    """parse the `concrete_vals` of every printed playback test -> list of (check_label, [bytes])"""
    out = []
    for m in re.finditer(r"/// Check for `[^`]*`: \"(.*?)\"\s*\n(.*?)let concrete_vals: Vec<Vec<u8>> = vec!\[(.*?)\n\s*\];", raw, re.S):
        label = m.group(1)
        vals = []
        for vm in re.finditer(r"vec!\[([0-9, ]*)\]", m.group(3)):
            bs = [int(x) for x in vm.group(1).replace(" ", "").split(",") if x != ""]
            vals.append(bs)
        out.append((label, vals))
    return out


def build_native():
    """plain cargo build of the harness crate against /repo's working tree (dev-with-overflow-checks and
    release), used to replay counterexamples against the real, natively compiled code."""
    bins = {}
    for prof, flag, sub in (("dev", [], "debug"), ("release", ["--release"], "release")):
        p = subprocess.run(["cargo", "build", "--offline", "--bin", "cvh-replay", "--target-dir", NATIVE_TARGET] + flag,
                           cwd=HARNESS, env=ENV, stdout=subprocess.PIPE, stderr=subprocess.STDOUT, text=True)
        if p.returncode != 0:
            log("native build failed:\n" + p.stdout[-3000:])
            return None
        bins[prof] = os.path.join(NATIVE_TARGET, sub, "cvh-replay")
    return bins


def native_replay(bins, fn_name, vals):
    """-> {profile: {failed: [...], panic: str|None, assume_violated: bool, rc: int}}"""
    arg = ",".join("%02x" % (v[0] if v else 0) for v in vals)
    out = {}
    for prof, b in bins.items():
        try:
            p = subprocess.run([b, fn_name, arg], stdout=subprocess.PIPE, stderr=subprocess.STDOUT, text=True, timeout=20)
        except subprocess.TimeoutExpired:
            # the natively compiled real code does not return on this input: an unbounded loop (C20 class)
            out[prof] = {"failed": [], "panic": "HANG: no result within 20 s (unbounded loop)", "assume_violated": False,
                         "rc": -1, "stdout": ""}
            continue
        failed = re.findall(r"^FAILED (.*)$", p.stdout, re.M)
        pm = re.search(r"^PANIC (.*)$", p.stdout, re.M)
        out[prof] = {"failed": failed, "panic": pm.group(1) if pm else None, "assume_violated": p.returncode == 3,
                     "rc": p.returncode, "stdout": p.stdout[-1500:]}
    return out


def sweep_witness(bins, fn_name, labels):
    try:
        p = subprocess.run([bins["release"], "--sweep", fn_name, os.environ.get("CV_WITNESS_BUDGET", "400000")],
                           stdout=subprocess.PIPE, stderr=subprocess.STDOUT, text=True, timeout=600)
    except subprocess.TimeoutExpired:
        return []
    out = []
    for m in re.finditer(r"^SWEEP-FAIL harness=\S+ draws=\[([0-9, ]*)\] panic=(true|false) failed=\[(.*)\]$", p.stdout, re.M):
        vals = [[int(x)] for x in m.group(1).replace(" ", "").split(",") if x != ""]
        failed = set(re.findall(r'"([^"]+)"', m.group(3)))
        if m.group(2) == "true" or (failed & labels):
            lab = sorted(failed & labels)[0] if (failed & labels) else sorted(labels)[0] if labels else "panic"
            out.append((lab, vals))
    return out[:3]


def reproduces(kani_fail_labels, nat):
    """A counterexample reproduces if, in some native profile, one of the kani-failed labels fails natively,
    or the native run panics inside the real code (C20 class: unwrap on None, overflow, bounds)."""
    for prof, r in nat.items():
        if r["assume_violated"]:
            continue
        if r["panic"] is not None:
            return True, f"{prof}: panic: {r['panic'][:120]}"
        for l in r["failed"]:
            if l in kani_fail_labels:
                return True, f"{prof}: {l}"
    return False, ""


# ----------------------------------------------------------------------------------------------------
# known findings
def load_known():
    p = os.path.join(VERIF, "known_findings.json")
    if not os.path.exists(p):
        return []
    return json.load(open(p)).get("findings", [])


def candidate_known(known, harness_fn, labels):
    """an open finding listing this site whose labels cover every label the solver reported as failed"""
    for k in known:
        if k.get("status") != "open" or harness_fn not in k.get("sites", []):
            continue
        if set(labels) <= set(k.get("labels", [])) | set(k.get("solver_labels", [])):
            return k
    return None


def match_known(known, prop, harness_fn, labels, panic):
    """A finding suppresses a failure only if the harness is one of the listed sites AND every failing label
    (or the panic location) is one of the listed labels: a different clause failing at the same site, or the
    same clause at another site, is still a VIOLATION."""
    for k in known:
        if k.get("status") != "open":
            continue
        if harness_fn not in k.get("sites", []):
            continue
        allowed = set(k.get("labels", [])) | set(k.get("solver_labels", []))
        got = set(labels)
        if panic:
            pk = k.get("panic_contains")
            if not pk or pk not in panic:
                continue
        if got and got <= allowed:
            return k
        if not got and panic and k.get("panic_contains"):
            return k
    return None


# ----------------------------------------------------------------------------------------------------
def chumsky_tree_id():
    """hash of /repo/src + Cargo.toml: recorded in the evidence so that a result is tied to the tree it was
    computed from"""
    h = hashlib.sha256()
    for f in sorted(glob.glob(os.path.join(REPO, "src", "**", "*.rs"), recursive=True)) + [os.path.join(REPO, "Cargo.toml")]:
        h.update(f.encode())
        h.update(open(f, "rb").read())
    return h.hexdigest()[:16]


def do_check(prop, tier, seed, only=None, write_evidence=True):
    t_start = time.time()
    with Lock():
        reg = load_registry()
        sync_lockfile()
        sel = select(reg, prop, tier, seed)
        if only:
            sel = [r for r in sel if r["fn"] in only or r["harness"] in only]
        if not sel:
            log(f"no harness registered for {prop}")
            return 2
        names = [r["harness"] for r in sel]
        byname = {r["harness"]: r for r in sel}
        tmax = max(r["timeout_s"] for r in sel)
        jobs = JOBS
        if tier == "quick":
            tmax = min(tmax, int(os.environ.get("CV_QUICK_TIMEOUT", 600)))
        else:
            _MEM["kb"] = THOROUGH_MEM_KB
            jobs = THOROUGH_JOBS
        log(f"{prop} {tier}: {len(names)} harnesses, -j {min(jobs, len(names))}, per-harness timeout {tmax}s, "
            f"{_MEM['kb'] // 1000} MB per solver process")
        results, raw, wall = run_kani(names, tmax, f"{prop}-{tier}", jobs=jobs)
        results = rerun_lost(results, raw, names, byname, tmax, f"{prop}-{tier}", jobs)
        known = load_known()
        bins = None
        violations, known_hits, inconclusive, holds = [], [], [], []
        failed_q, unreplayed = [], []
        samples = []
        for h in names:
            e = results[h]
            meta = byname[h]
            verdict, reason = classify(e)
            degenerate = None
            if verdict == "INCONCLUSIVE" and reason.startswith("vacuity") and meta.get("sampled") \
                    and any(v == "Satisfied" for v in e["covers"].values()):
                # an enumerated (sampled) shape may be degenerate — e.g. not(empty) never accepts: the query is still
                # decided for every input; it is kept, marked, and does not count as non-trivial in the evidence
                verdict, degenerate = "HOLDS", reason
            rec = {"harness": h, "shape": meta.get("shape"), "family": meta.get("family"), "N": meta.get("N"),
                   "unwind": meta.get("unwind"), "error_type": meta.get("error_type"),
                   "symbolic": meta.get("symbolic"), "assumptions": meta.get("assumptions"),
                   "result": verdict, "reason": reason, "solver_s": e["stats"].get("runtime_solver_s"),
                   "verification_s": e["duration_s"], "vccs": e["stats"].get("vccs_generated"),
                   "vccs_remaining": e["stats"].get("vccs_remaining"),
                   "program_steps": e["stats"].get("size_program_expression"), "cbmc_checks": e["n_checks"],
                   "covers": e["covers"], "aims": meta.get("aims")}
            if degenerate:
                rec["degenerate_shape"] = degenerate
            if verdict == "FAILED":
                labels = sorted({f["description"] for f in e["failed"] if f["status"] == "Failure" and "unwinding" not in f["description"]})
                rec["failed_checks"] = [f for f in e["failed"] if f["status"] == "Failure"][:8]
                failed_q.append((h, meta, e, rec, labels))
            elif verdict == "INCONCLUSIVE":
                inconclusive.append((h, reason))
            else:
                holds.append(h)
            rec["functions_encoded"] = len(e["functions"])
            samples.append(rec)
        # ---- failed harnesses: known-finding witnesses first (native replay of the recorded input), then
        # solver playback (one sequential Kani run for at most CV_PLAYBACK_CAP harnesses, cheapest first)
        need_pb = []
        for item in failed_q:
            (h, meta, e, rec, labels) = item
            k = candidate_known(known, meta["fn"], labels)
            if k and k.get("witness"):
                if bins is None:
                    bins = build_native()
                if bins:
                    vals = [[int(b, 16)] for b in k["witness"][meta["fn"]].split(",")] if meta["fn"] in k["witness"] else None
                    if vals is not None:
                        nat = native_replay(bins, meta["fn"], vals)
                        ok, how = reproduces(set(labels), nat)
                        nat_labels = sorted({l for r in nat.values() for l in r["failed"]})
                        panic = next((r["panic"] for r in nat.values() if r["panic"]), None)
                        if ok and match_known(known, prop, meta["fn"], nat_labels or labels, panic) is k:
                            rec["result"] = "KNOWN-FINDING"
                            rec["finding"] = k["id"]
                            rec["native_labels"] = nat_labels
                            rec["native_panic"] = panic
                            rec["witness"] = k["witness"][meta["fn"]]
                            rec["how"] = "solver: harness FAILED with exactly the recorded labels; recorded witness replayed natively: " + how
                            known_hits.append((k, meta, nat_labels, panic))
                            continue
            need_pb.append(item)
        cap = int(os.environ.get("CV_PLAYBACK_CAP", 3))
        need_pb.sort(key=lambda it: (it[2]["duration_s"] or 1e9))
        pb_now, pb_skipped = need_pb[:cap], need_pb[cap:]
        tests_by_h = {}
        if pb_now:
            log(f"concrete playback for {len(pb_now)} failed harness(es)" + (f" ({len(pb_skipped)} more not replayed: cap)" if pb_skipped else ""))
            for (h, meta, e, rec, labels) in pb_now:
                pr, praw, _ = run_kani([h], tmax, f"{prop}-{tier}-pb-{meta['fn']}", playback=True)
                tests_by_h[h] = extract_playback(praw)
            if bins is None:
                bins = build_native()
        for (h, meta, e, rec, labels) in pb_now:
            tests = tests_by_h.get(h, [])
            if not tests and bins:
                # Kani printed no playback (its trace generation can need > 30 GB where the verdict took 3 GB): look for a
                # witness of the failure the SOLVER reported by running the natively compiled harness body over every
                # draw vector of a small alphabet. The verdict is the solver's; this only extracts a concrete input,
                # which is then replayed like any other counterexample.
                tests = sweep_witness(bins, meta["fn"], set(labels))
                if tests:
                    rec["witness_from"] = "native enumeration over a small alphabet after the solver reported the failure (no concrete playback available)"
            confirmed = None
            tried = []
            if bins:
                for (lab, vals) in tests:
                    nat = native_replay(bins, meta["fn"], vals)
                    ok, how = reproduces(set(labels) | {lab}, nat)
                    tried.append({"check": lab, "vals": vals, "native": nat, "reproduces": ok, "how": how})
                    if ok and confirmed is None:
                        confirmed = tried[-1]
            if confirmed:
                nat = confirmed["native"]
                nat_labels = sorted({l for r in nat.values() for l in r["failed"]})
                panic = next((r["panic"] for r in nat.values() if r["panic"]), None)
                rp = write_replay(prop, meta, confirmed, labels, e)
                k = match_known(known, prop, meta["fn"], nat_labels or labels, panic)
                rec["replay"] = rp
                rec["native_labels"] = nat_labels
                rec["native_panic"] = panic
                if k:
                    rec["result"] = "KNOWN-FINDING"
                    rec["finding"] = k["id"]
                    known_hits.append((k, meta, nat_labels, panic))
                else:
                    rec["result"] = "VIOLATION"
                    violations.append((meta, rp, nat_labels or labels, panic))
            else:
                rec["result"] = "INCONCLUSIVE"
                rec["reason"] = "counterexample did not reproduce natively (encoding or harness error)" if tests else "kani reported a failure but printed no concrete playback"
                rec["tried"] = [{k2: v for k2, v in t.items() if k2 != "native"} for t in tried][:3]
                inconclusive.append((h, rec["reason"]))
        for (h, meta, e, rec, labels) in pb_skipped:
            rec["result"] = "FAILED-NOT-REPLAYED"
            rec["reason"] = "solver found a counterexample; not replayed (playback cap), see the replayed ones"
            unreplayed.append((h, labels))
        funcs = sorted({f for h in names for f in results[h]["functions"]})
        wall_total = time.time() - t_start
        # ---- report
        for (k, meta, labs, panic) in known_hits:
            what = k["what"]
            print(f"KNOWN-FINDING: property={k['property']} {k['id']} site={meta['fn']} {what}")
        for (meta, rp, labs, panic) in violations:
            print(f"VIOLATION property={prop} replay={rp}")
            log(f"  harness={meta['harness']} labels={labs} panic={panic}")
        for (h, labs) in unreplayed:
            print(f"FAILED-NOT-REPLAYED property={prop} harness={h} labels={labs}")
        for (h, why) in inconclusive:
            print(f"INCONCLUSIVE property={prop} harness={h} reason={why}")
        print(f"SUMMARY property={prop} tier={tier} harnesses={len(names)} holds={len(holds)} known={len(known_hits)} "
              f"violations={len(violations)} inconclusive={len(inconclusive)} wall_s={wall_total:.0f}")
        if write_evidence:
            write_evidence_file(prop, tier, seed, samples, funcs, holds, known_hits, violations, inconclusive, wall_total, names, results)
        if violations:
            return 1
        if inconclusive or unreplayed:
            return 2
        return 0


def write_replay(prop, meta, confirmed, labels, e):
    os.makedirs(REPLAYS, exist_ok=True)
    path = os.path.join(REPLAYS, f"{prop}-{meta['fn']}.json")
    doc = {"property": prop, "harness": meta["harness"], "fn": meta["fn"], "shape": meta.get("shape"),
           "kani_failed_checks": labels, "check": confirmed["check"], "vals": confirmed["vals"],
           "how": confirmed["how"], "native": confirmed["native"],
           "symbolic": meta.get("symbolic"),
           "replay_cmd": f"python3 tools/cv.py replay {os.path.relpath(path, VERIF)}"}
    with open(path, "w") as f:
        json.dump(doc, f, indent=1)
    return os.path.relpath(path, VERIF)


def write_evidence_file(prop, tier, seed, samples, funcs, holds, known_hits, violations, inconclusive, wall, names, results):
    import props_meta
    os.makedirs(EVID, exist_ok=True)
    distinct = len({s["shape"] for s in samples if s["result"] in ("HOLDS", "KNOWN-FINDING", "VIOLATION") and all(v == "Satisfied" for v in s["covers"].values())})
    solver = sum((results[h]["stats"].get("runtime_solver_s") or 0) for h in names)
    symex = sum((results[h]["stats"].get("runtime_symex_s") or 0) for h in names)
    pm = props_meta.META.get(prop, {})
    doc = {
        "property_id": prop,
        "tier": tier,
        "seed": seed,
        "level": "model_checking",
        "coverage": {
            "evaluations": len(names),
            "distinct_nontrivial": distinct,
            "rule": "one evaluation = one SAT query (Kani harness -> CBMC -> CaDiCaL) deciding one grammar shape for ALL inputs "
                    "and ALL values of its symbolic parameters within the stated bound; non-trivial = the query was decided "
                    "(not inconclusive) and every vacuity witness (kani::cover: some input accepted, some rejected, ...) was "
                    "SATISFIED; distinct = distinct shape rendering",
            "samples": samples,
            "exhaustive": False,
            "queries_discharged": len(holds) + len(known_hits) + len(violations),
            "queries_inconclusive": len(inconclusive),
            "solver_s_total": round(solver, 3),
            "symex_s_total": round(symex, 3),
            "vccs_total": sum((results[h]["stats"].get("vccs_generated") or 0) for h in names),
            "cbmc_checks_total": sum(results[h]["n_checks"] for h in names),
            "functions_encoded": funcs,
            "bounds": pm.get("bounds", {}).get(tier, ""),
            "not_covered": pm.get("not_covered", []),
            "stubs": pm.get("stubs", STUBS),
            "engine": "kani 0.68.0 / cbmc 6.11.0 / cadical",
            "chumsky_tree": chumsky_tree_id(),
            "known_findings_hit": [{"id": k["id"], "site": m["fn"], "labels": l, "panic": p} for (k, m, l, p) in known_hits],
            "violations": [{"site": m["fn"], "replay": rp, "labels": l, "panic": p} for (m, rp, l, p) in violations],
        },
        "assumptions": ASSUMPTIONS + pm.get("assumptions", []),
        "wall_s": round(wall, 1),
        "violations": len(violations),
    }
    with open(os.path.join(EVID, f"{prop}.json"), "w") as f:
        json.dump(doc, f, indent=1)


STUBS = [
    "hashbrown replaced by an association-list stand-in with map/set semantics (stubs/hashbrown) so that feature "
    "`memoization` is encodable; chumsky itself is the real code",
    "core::panic::Location::caller stubbed (returns a fixed Location) only in harnesses that call Recursive::define",
]
ASSUMPTIONS = [
    "bounded claim: holds for every input up to the stated length and every value of the symbolic parameters; says "
    "nothing beyond the bound or for shapes outside the catalogue",
    "chumsky built with default-features off, features std+pratt+extension+either+unstable+memoization, profile dev "
    "with debug-assertions=false and overflow-checks=true (release semantics with overflow checks); no stacker",
    "trusted: rustc/Kani MIR->goto translation, CBMC, CaDiCaL; the reference semantics refsem.rs (validated natively "
    "against chumsky on small alphabets by `cv.py sweep`)",
]


# ----------------------------------------------------------------------------------------------------
def do_replay(path):
    doc = json.load(open(path if os.path.isabs(path) else os.path.join(VERIF, path)))
    with Lock():
        load_registry()
        bins = build_native()
    if not bins:
        return 2
    nat = native_replay(bins, doc["fn"], doc["vals"])
    ok, how = reproduces(set(doc["kani_failed_checks"]) | {doc["check"]}, nat)
    for prof, r in nat.items():
        print(f"[{prof}] rc={r['rc']} failed={r['failed']} panic={r['panic']}")
    print(("REPRODUCED " + how) if ok else "NOT-REPRODUCED")
    return 1 if ok else 0


def do_setup():
    with Lock():
        reg = load_registry()
        sync_lockfile()
        for tool in ("cargo", "cbmc"):
            if not shutil.which(tool):
                log(f"missing tool {tool}")
                return 2
        v = subprocess.run(["cargo", "kani", "--version"], env=ENV, stdout=subprocess.PIPE, stderr=subprocess.STDOUT, text=True)
        log(v.stdout.strip())
        bins = build_native()
        if not bins:
            return 2
        # warm the Kani build (compiles /repo's working tree for the model checker)
        p = subprocess.run(["cargo", "kani", "--target-dir", KANI_TARGET, "--only-codegen", "--exact", "--harness", "hand::base::smoke", "-Z", "stubbing"],
                           cwd=HARNESS, env=ENV, stdout=subprocess.PIPE, stderr=subprocess.STDOUT, text=True)
        if p.returncode != 0:
            log(p.stdout[-3000:])
            return 2
        log(f"setup ok: {len(reg)} harnesses registered")
    return 0


def do_sweep(names):
    with Lock():
        reg = load_registry()
        bins = build_native()
    if not bins:
        return 2
    fns = names or [r["fn"] for r in reg if not r.get("sampled") and not r.get("expect_fail")]
    bad = 0
    for fn in fns:
        p = subprocess.run([bins["release"], "--sweep", fn, os.environ.get("CV_SWEEP_BUDGET", "60000")],
                           stdout=subprocess.PIPE, stderr=subprocess.STDOUT, text=True)
        last = p.stdout.strip().splitlines()[-1] if p.stdout.strip() else "?"
        print(last)
        if p.returncode != 0:
            bad += 1
            print(p.stdout[-800:])
    return 1 if bad else 0


def do_run(names, timeout=900):
    with Lock():
        reg = load_registry()
        by = {r["fn"]: r for r in reg}
        by.update({r["harness"]: r for r in reg})
        if names and names[0] == "-r":
            rx = re.compile(names[1])
            names = [r["fn"] for r in reg if rx.search(r["fn"]) and not r.get("sampled")]
        full = [by[n]["harness"] if n in by else n for n in names]
        results, raw, wall = run_kani(full, timeout, "adhoc")
        results = rerun_lost(results, raw, full, {h: {"fn": h.split("::")[-1]} for h in full}, timeout, "adhoc", JOBS)
        for h in sorted(full, key=lambda h: results[h]["duration_s"] or 1e9):
            e = results[h]
            v, why = classify(e)
            print(h, v, why, "t=%.1fs" % (e["duration_s"] or -1), "solver=%s" % (e["stats"] or {}).get("runtime_solver_s"),
                  [f["description"] for f in e["failed"] if f["status"] == "Failure"][:6], e["covers"])
        print("wall %.0fs" % wall)
    return 0


def main():
    a = sys.argv[1:]
    if not a:
        print(__doc__)
        return 64
    if a[0] == "setup":
        return do_setup()
    if a[0] == "check":
        prop = a[1]
        tier = os.environ.get("VERIF_TIER", "quick")
        only = None
        noev = "CV_CACHE" in os.environ
        i = 2
        while i < len(a):
            if a[i] == "--tier":
                tier = a[i + 1]
                i += 2
            elif a[i] == "--only":
                only = set(a[i + 1].split(","))
                i += 2
            elif a[i] == "--no-evidence":
                noev = True
                i += 1
            else:
                i += 1
        seed = int(os.environ.get("VERIF_SEED", "0") or 0)
        return do_check(prop, tier, seed, only=only, write_evidence=(only is None and not noev))
    if a[0] == "replay":
        return do_replay(a[1])
    if a[0] == "run":
        return do_run(a[1:])
    if a[0] == "sweep":
        return do_sweep(a[1:])
    print(__doc__)
    return 64


if __name__ == "__main__":
    sys.exit(main())
