"""The grammar catalogue: every shape run by the checks, per property family.

`families()` returns [(module_name, label_prefix, [Shape])]. A shape's `props` maps the property ids whose
check runs it to the tier from which it is included ('quick' => quick and thorough)."""
import itertools

from dsl import *
from gen import Shape

Q, T = "quick", "thorough"


def rest_after(n):
    """observe the restored / advanced position: follow with a span-captured rest-of-input parser"""
    return Then(Sp(n), Sp(Rest()))


# ---------------------------------------------------------------------------------------------------
# C01 — PEG semantics
def c01_core():
    s = []

    def add(name, node, tier=Q, aims="", n=3, mod="pc", **kw):
        s.append(Shape(f"c01_{name}", node, "refsem", {"C01": tier, "C20": T}, n=n, mod=mod, aims=aims, **kw))

    # primitives, each followed by the rest capture
    add("prims_a", rest_after(Or3(Tag(1, Sp(Just(0))), Tag(2, Sp(OneOf2(1, 2))), Tag(3, Sp(NoneOf1(3))))),
        aims="just/one_of/none_of consume one token or fail with the position restored")
    add("prims_b", rest_after(Or3(Tag(1, Sp(Select(0))), Tag(2, Sp(Just2(1, 2))), Tag(3, Sp(Custom2(3))))),
        aims="select, just(sequence) failing at its 2nd element, custom failing after consuming")
    add("end_empty", Then(Sp(Empty()), Or(Tag(1, Then(Sp(Just(0)), Sp(End()))), Tag(2, Then(Sp(Any()), Sp(Any()))))),
        aims="end() rejects a remaining token; empty consumes nothing")
    # sequencing flavours
    add("seq_flavours", Seq3(Sp(Just(0)), IgnoreThen(Just(1), Sp(Any())), ThenIgnore(Sp(OrNot(Just(2))), End())),
        aims="then/ignore_then/then_ignore/group tuple propagate the first failure, left to right")
    add("seq_array", Seq3(Sp(Just(0)), Sp(Any()), Sp(OrNot(Just(1))), form="array"),
        aims="group([..;3])")
    add("delim_pad", Or(Tag(1, Delim(Just(0), Sp(Any()), Just(1))), Tag(2, Pad(Sp(Just(2)), OrNot(Just(3))))),
        aims="delimited_by / padded_by order of sub-parsers")
    # ordered choice whose first alternative matches a proper prefix and then fails
    for form in ("tuple", "vec", "array"):
        add(f"choice_prefix_{form}",
            rest_after(Or3(Tag(1, Sp(Then(Just(0), Just(1)))), Tag(2, Sp(Then(Just(2), Just(3)))), Tag(3, Sp(Just(4))),
                           form=form)),
            aims=f"Choice<{form}>: rewind after each failed alternative; alternatives tried in order; first wins")
    add("or_chain", rest_after(Or(Or(Tag(1, Sp(Then(Just(0), Just(1)))), Tag(2, Sp(Then(Just(2), Any())))), Tag(3, Sp(Any())))),
        aims="a.or(b).or(c): nested Or")
    # option / lookahead followed by a consuming parser
    add("or_not", rest_after(Sp(OrNot(Then(Just(0), Just(1))))), aims="or_not restores the position when the inner parser fails after consuming", always_accepts=True)
    add("not", rest_after(Sp(Not(Then(Just(0), Just(1))))), aims="not consumes nothing, succeeds iff inner fails")
    add("and_is", rest_after(Sp(AndIs(Sp(Then(Any(), OrNot(Just(0)))), Then(NoneOf1(1), Any())))),
        aims="and_is: both must match at the same start; consumes what A consumed")
    add("rewind", Then(Sp(Rewind(Sp(Then(Just(0), Any())))), Sp(Rest())), aims="rewind: output kept, nothing consumed")
    add("lookahead_in_choice",
        rest_after(Or(Tag(1, Then(Sp(Rewind(Just(0))), Sp(Just(1)))), Tag(2, Then(Sp(Not(Just(2))), Sp(Any()))))),
        aims="lookahead nested in a choice whose first alternative fails after the lookahead succeeded")
    # semantic rejection inside a choice
    add("reject_in_choice",
        rest_after(Or3(Tag(1, Sp(Filter(Any(), 0))), Tag(2, Sp(TryMap(Any(), 1))), Tag(3, Sp(TryMapWith(Then(Any(), Any()), 2))))),
        aims="rejecting filter/try_map/try_map_with count as failure: fall through to the next alternative")
    add("to_ignored", Then(To(Sp(Just(0)), 0x55), Then(Ignored(Any()), Sp(OrNot(Any())))),
        aims="to / ignored (sub-parser runs in Check mode)")
    # boxed (dyn) variants
    add("boxed_choice", rest_after(Bx(Or3(Bx(Tag(1, Sp(Then(Just(0), Just(1))))), Bx(Tag(2, Sp(Then(Just(2), Just(3))))), Tag(3, Sp(Just(4)))))),
        aims="the dyn path (Boxed::go -> go_emit)")
    add("boxed_lookahead", rest_after(Bx(Then(Sp(Bx(OrNot(Bx(Then(Just(0), Just(1)))))), Sp(Bx(Not(Just(2))))))),
        aims="boxed or_not / not")
    # EmptyErr (zero-sized error fast paths)
    add("choice_prefix_emptyerr",
        rest_after(Or3(Tag(1, Sp(Then(Just(0), Just(1)))), Tag(2, Sp(Then(Just(2), Just(3)))), Tag(3, Sp(Just(4))))),
        mod="pe", aims="same with the zero-sized error type")
    # N = 4 versions of the central ones (thorough)
    add("choice_prefix_tuple_n4",
        rest_after(Or3(Tag(1, Sp(Then(Just(0), Then(Just(1), Just(2))))), Tag(2, Sp(Then(Just(3), Just(4)))), Tag(3, Sp(Just(5))))),
        tier=T, n=4, timeout=1200)
    add("or_not_n4", rest_after(Sp(OrNot(Then(Just(0), Then(Just(1), Just(2)))))), tier=T, n=4, timeout=1200, always_accepts=True)
    add("and_is_n4", rest_after(Sp(AndIs(Sp(Then(Any(), OrNot(Just(0)))), Then(NoneOf1(1), Any())))), tier=T, n=4, timeout=1200)
    return s


def c01_sampled():
    """Generated depth-2 trees B(U(L), U(L)) over
       B in {then, ignore_then, or, and_is}, U in {id, or_not, not, rewind, filter}, L in {just, any, none_of, empty}
       4 * (5*4)^2 = 1600 shapes; the thorough tier runs a VERIF_SEED-selected subset."""
    s = []
    Bs = ["then", "ithen", "or", "andis"]
    Us = ["id", "ornot", "not", "rew", "filt"]
    Ls = ["just", "any", "none", "empty"]
    idx = 0
    for b in Bs:
        for (u1, l1) in itertools.product(Us, Ls):
            for (u2, l2) in itertools.product(Us, Ls):
                pi = [0]

                def leaf(l):
                    if l == "just":
                        i = pi[0]
                        pi[0] += 1
                        return Just(i)
                    if l == "any":
                        return Any()
                    if l == "none":
                        i = pi[0]
                        pi[0] += 1
                        return NoneOf1(i)
                    return Empty()

                def un(u, x):
                    if u == "id":
                        return x
                    if u == "ornot":
                        return OrNot(x)
                    if u == "not":
                        return Not(x)
                    if u == "rew":
                        return Rewind(x)
                    i = pi[0]
                    pi[0] += 1
                    return Filter(x, i)

                x = Sp(un(u1, leaf(l1)))
                y = Sp(un(u2, leaf(l2)))
                if b == "then":
                    n = Then(x, y)
                elif b == "ithen":
                    n = IgnoreThen(x, y)
                elif b == "or":
                    n = Or(Tag(1, x), Tag(2, y))
                else:
                    n = AndIs(x, y)
                name = f"c01s_{idx:04d}_{b}_{u1}{l1}_{u2}{l2}"
                s.append(Shape(name, rest_after(n), "refsem", {"C01": T}, n=3, sampled=True, timeout=600))
                idx += 1
    return s


# ---------------------------------------------------------------------------------------------------
def families():
    fams = [
        ("c01", "C01", c01_core()),
    ]
    return fams
