"""The grammar catalogue: every shape run by the checks, per property family.

`families()` returns [(module_name, label_prefix, [Shape])]. A shape's `props` maps the property ids whose
check runs it to the tier from which it is included ('quick' => quick and thorough)."""
import itertools

from dsl import *
from gen import Shape

Q, T = "quick", "thorough"


def rest_after(n):
    """observe the restored / advanced position: follow with a span-captured rest-of-input parser"""
    return Then(Sp(n), Sp(Rest()))


# ---------------------------------------------------------------------------------------------------
# C01 — PEG semantics
def c01_core():
    s = []

    def add(name, node, tier=Q, aims="", n=3, mod="pc", **kw):
        s.append(Shape(f"c01_{name}", node, "refsem", {"C01": tier, "C20": T}, n=n, mod=mod, aims=aims, **kw))

    # primitives, each followed by the rest capture
    add("prims_a", rest_after(Or3(Tag(1, Sp(Just(0))), Tag(2, Sp(OneOf2(1, 2))), Tag(3, Sp(NoneOf1(3))))),
        aims="just/one_of/none_of consume one token or fail with the position restored")
    add("prims_b", rest_after(Or3(Tag(1, Sp(Select(0))), Tag(2, Sp(Just2(1, 2))), Tag(3, Sp(Custom2(3))))),
        aims="select, just(sequence) failing at its 2nd element, custom failing after consuming")
    add("end_empty", Then(Sp(Empty()), Or(Tag(1, Then(Sp(Just(0)), Sp(End()))), Tag(2, Then(Sp(Any()), Sp(Any()))))),
        aims="end() rejects a remaining token; empty consumes nothing")
    # sequencing flavours
    add("seq_flavours", Seq3(Sp(Just(0)), IgnoreThen(Just(1), Sp(Any())), ThenIgnore(Sp(OrNot(Just(2))), End())),
        aims="then/ignore_then/then_ignore/group tuple propagate the first failure, left to right")
    add("seq_array", Seq3(Sp(Just(0)), Sp(Any()), Sp(OrNot(Just(1))), form="array"),
        aims="group([..;3])")
    add("delim_pad", Or(Tag(1, Delim(Just(0), Sp(Any()), Just(1))), Tag(2, Pad(Sp(Just(2)), OrNot(Just(3))))),
        aims="delimited_by / padded_by order of sub-parsers")
    # ordered choice whose first alternative matches a proper prefix and then fails
    for form in ("tuple", "vec", "array"):
        add(f"choice_prefix_{form}",
            rest_after(Or3(Tag(1, Sp(Then(Just(0), Just(1)))), Tag(2, Sp(Then(Just(2), Just(3)))), Tag(3, Sp(Just(4))),
                           form=form)),
            aims=f"Choice<{form}>: rewind after each failed alternative; alternatives tried in order; first wins")
    add("or_chain", rest_after(Or(Or(Tag(1, Sp(Then(Just(0), Just(1)))), Tag(2, Sp(Then(Just(2), Any())))), Tag(3, Sp(Any())))),
        aims="a.or(b).or(c): nested Or")
    # option / lookahead followed by a consuming parser
    add("or_not", rest_after(Sp(OrNot(Then(Just(0), Just(1))))), aims="or_not restores the position when the inner parser fails after consuming", always_accepts=True)
    add("not", rest_after(Sp(Not(Then(Just(0), Just(1))))), aims="not consumes nothing, succeeds iff inner fails")
    add("and_is", rest_after(Sp(AndIs(Sp(Then(Any(), OrNot(Just(0)))), Then(NoneOf1(1), Any())))),
        aims="and_is: both must match at the same start; consumes what A consumed")
    add("rewind", Then(Sp(Rewind(Sp(Then(Just(0), Any())))), Sp(Rest())), aims="rewind: output kept, nothing consumed")
    add("lookahead_in_choice",
        rest_after(Or(Tag(1, Then(Sp(Rewind(Just(0))), Sp(Just(1)))), Tag(2, Then(Sp(Not(Just(2))), Sp(Any()))))),
        aims="lookahead nested in a choice whose first alternative fails after the lookahead succeeded")
    # semantic rejection inside a choice
    add("reject_in_choice",
        rest_after(Or3(Tag(1, Sp(Filter(Any(), 0))), Tag(2, Sp(TryMap(Any(), 1))), Tag(3, Sp(TryMapWith(Then(Any(), Any()), 2))))),
        aims="rejecting filter/try_map/try_map_with count as failure: fall through to the next alternative")
    add("to_ignored", Then(To(Sp(Just(0)), 0x55), Then(Ignored(Any()), Sp(OrNot(Any())))),
        aims="to / ignored (sub-parser runs in Check mode)")
    # boxed (dyn) variants
    add("boxed_choice", rest_after(Bx(Or3(Bx(Tag(1, Sp(Then(Just(0), Just(1))))), Bx(Tag(2, Sp(Then(Just(2), Just(3))))), Tag(3, Sp(Just(4)))))),
        aims="the dyn path (Boxed::go -> go_emit)")
    add("boxed_filter_checked", rest_after(Or(Tag(1, IgnoreThen(Bx(Filter(Any(), 0)), Sp(Just(1)))), Tag(2, Then(Sp(Any()), Sp(Bx(Not(Bx(Filter(Any(), 2))))))))),
        aims="a boxed filter evaluated in CHECK mode (left of ignore_then, inside not): the dyn go_check path must apply the predicate too")
    add("boxed_lookahead", rest_after(Bx(Then(Sp(Bx(OrNot(Bx(Then(Just(0), Just(1)))))), Sp(Bx(Not(Just(2))))))),
        aims="boxed or_not / not")
    # EmptyErr (zero-sized error fast paths)
    add("choice_prefix_emptyerr",
        rest_after(Or3(Tag(1, Sp(Then(Just(0), Just(1)))), Tag(2, Sp(Then(Just(2), Just(3)))), Tag(3, Sp(Just(4))))),
        mod="pe", aims="same with the zero-sized error type")
    # N = 4 versions of the central ones (thorough)
    add("choice_prefix_tuple_n4",
        rest_after(Or3(Tag(1, Sp(Then(Just(0), Then(Just(1), Just(2))))), Tag(2, Sp(Then(Just(3), Just(4)))), Tag(3, Sp(Just(5))))),
        tier=T, n=4, timeout=1200)
    add("or_not_n4", rest_after(Sp(OrNot(Then(Just(0), Then(Just(1), Just(2)))))), tier=T, n=4, timeout=1200, always_accepts=True)
    add("and_is_n4", rest_after(Sp(AndIs(Sp(Then(Any(), OrNot(Just(0)))), Then(NoneOf1(1), Any())))), tier=T, n=4, timeout=1200)
    return s


def c01_sampled():
    """Generated depth-2 trees B(U(L), U(L)) over
       B in {then, ignore_then, or, and_is}, U in {id, or_not, not, rewind, filter}, L in {just, any, none_of, empty}
       4 * (5*4)^2 = 1600 shapes; the thorough tier runs a VERIF_SEED-selected subset."""
    s = []
    Bs = ["then", "ithen", "or", "andis"]
    Us = ["id", "ornot", "not", "rew", "filt"]
    Ls = ["just", "any", "none", "empty"]
    idx = 0
    for b in Bs:
        for (u1, l1) in itertools.product(Us, Ls):
            for (u2, l2) in itertools.product(Us, Ls):
                pi = [0]

                def leaf(l):
                    if l == "just":
                        i = pi[0]
                        pi[0] += 1
                        return Just(i)
                    if l == "any":
                        return Any()
                    if l == "none":
                        i = pi[0]
                        pi[0] += 1
                        return NoneOf1(i)
                    return Empty()

                def un(u, x):
                    if u == "id":
                        return x
                    if u == "ornot":
                        return OrNot(x)
                    if u == "not":
                        return Not(x)
                    if u == "rew":
                        return Rewind(x)
                    i = pi[0]
                    pi[0] += 1
                    return Filter(x, i)

                x = Sp(un(u1, leaf(l1)))
                y = Sp(un(u2, leaf(l2)))
                if b == "then":
                    n = Then(x, y)
                elif b == "ithen":
                    n = IgnoreThen(x, y)
                elif b == "or":
                    n = Or(Tag(1, x), Tag(2, y))
                else:
                    n = AndIs(x, y)
                name = f"c01s_{idx:04d}_{b}_{u1}{l1}_{u2}{l2}"
                s.append(Shape(name, rest_after(n), "refsem", {"C01": T}, n=3, sampled=True, timeout=600))
                idx += 1
    return s



# ---------------------------------------------------------------------------------------------------
# C02 — repetition and separators
def c02_core():
    s = []

    def add(name, node, tier=Q, aims="", n=3, mod="pc", props=None, **kw):
        pr = {"C02": tier, "C20": T}
        if props:
            pr.update(props)
        s.append(Shape(f"c02_{name}", node, "refsem", pr, n=n, mod=mod, aims=aims, **kw))

    add("rep_bounds", rest_after(Sp(Rep(Sp(Just(0)), P(1), P(2)))), n=4, pre="t[1] <= t[2]",
        aims="repeated().at_least(lo).at_most(hi).collect::<Vec>(): count in [lo,hi], greedy, position after last item")
    add("rep_bounds_inverted", rest_after(Sp(Rep(Sp(Just(0)), P(1), P(2)))), n=3, pre="t[1] > t[2]", finding="F4",
        aims="at_least > at_most: the interval is empty, nothing may be accepted")
    add("rep_item2", rest_after(Sp(Rep(Sp(Then(Just(0), Just(1))), P(2), P(3)))), n=4, pre="t[2] <= t[3]",
        aims="two-token item that matches its first token and then fails: the partial item is given back")
    add("rep_exactly", rest_after(Sp(RepExactly(Sp(OneOf2(0, 1)), P(2)))), n=4, aims="exactly(n)")
    add("rep_at_least", rest_after(Sp(Rep(Sp(Just(0)), P(1), INF))), n=4, aims="at_least only (no upper bound)")
    add("rep_count", rest_after(Sp(RepCount(Then(Just(0), OrNot(Just(1))), P(2), P(3)))), n=4, pre="t[2] <= t[3]",
        aims="count()")
    add("rep_unit", rest_after(Sp(RepUnit(Then(Just(0), Just(1)), P(2), P(3)))), n=4, pre="t[2] <= t[3]",
        aims="Repeated as Parser<()> (counted path, Check mode)")
    add("rep_unit_unbounded", rest_after(Sp(RepUnit(Then(Just(0), Just(1)), P(2), INF))), n=4,
        aims="Repeated as Parser<()>: lo == 0 takes the fast loop, lo > 0 the counted path")
    add("sep_flags", rest_after(Sp(Sep(Sp(Just(0)), Just(1), P(2), P(3), FP(4), FP(5)))), n=4, pre="t[2] <= t[3]",
        timeout=900, aims="separated_by: all bounds x allow_leading x allow_trailing; separator only between items")
    add("sep_bounds_inverted", rest_after(Sp(Sep(Sp(Just(0)), Just(1), P(2), P(3), FK(False), FK(False)))), n=3,
        pre="t[2] > t[3]", finding="F4", aims="separated_by with at_least > at_most")
    add("sep_item2", rest_after(Sp(Sep(Sp(Then(Just(0), Just(1))), Just(2), K(0), INF, FP(3), FP(4)))), n=3, always_accepts=True,
        timeout=900, aims="two-token item failing after the separator was consumed: separator given back unless trailing allowed")
    add("sep_sep2", rest_after(Sp(Sep(Sp(Just(0)), Then(Just(1), Just(2)), P(3), INF, FK(False), FP(4)))), n=4, timeout=900,
        aims="a two-token separator that matches its first token and then fails after the last item: the partial separator is given back")
    add("sep_csv", rest_after(Sp(Sep(Sp(NoneOf1(0)), Just(0), P(1), INF, FK(False), FP(2)))), n=4,
        aims="none_of(sep) items separated by sep; at_least symbolic")
    add("sep_unit", rest_after(Sp(SepUnit(Just(0), Just(1), P(2), P(3), FP(4), FP(5)))), n=3, pre="t[2] <= t[3]",
        aims="SeparatedBy as Parser<()>")
    add("sep_count", rest_after(Sp(SepCount(Just(0), Just(1), P(2), P(3), FK(False), FP(4)))), n=3, pre="t[2] <= t[3]",
        aims="separated_by(..).count()")
    add("collect_exactly", rest_after(Sp(CollectEx2(Sp(Just(0))))), n=3,
        aims="collect_exactly::<[_;2]>: exactly two items, third left unconsumed, fewer = failure")
    add("collect_exactly_capped", rest_after(Sp(Or(Tag(1, CollectEx2B(Sp(Just(0)), P(1))), Tag(2, Empty())))), n=3, always_accepts=True,
        aims="repeated().at_most(hi).collect_exactly::<[_;2]>(): fails (with everything given back) when the cap is below 2")
    add("enumerate", rest_after(Sp(Enum(Sp(OneOf2(0, 1)), P(2), P(3)))), n=3, pre="t[2] <= t[3]",
        aims="enumerate(): indices 0.. in input order")
    add("foldl", rest_after(Sp(Foldl(Sp(Just(0)), Sp(Then(Just(1), Any()))))), n=4,
        aims="foldl folds from the left over exactly the item sequence")
    add("foldr", rest_after(Sp(Foldr(Sp(Just(0)), Sp(Any())))), n=3, aims="foldr folds from the right")
    add("rep_in_choice", rest_after(Or(Tag(1, Then(Sp(Rep(Just(0), K(1), K(2))), Sp(Just(1)))), Tag(2, Sp(Any())))), n=4,
        aims="repetition succeeds, the following parser fails, the choice falls through from the original position")
    add("sep_of_reps", rest_after(Sp(Sep(Sp(Rep(Just(0), K(1), INF)), Just(1), K(0), INF, FK(False), FK(False)))), n=4, always_accepts=True,
        tier=T, timeout=1800, aims="nested repetition: list of non-empty lists")
    add("rep_bounds_emptyerr", rest_after(Sp(Rep(Sp(Just(0)), P(1), P(2)))), n=3, pre="t[1] <= t[2]", mod="pe",
        aims="zero-sized error type")
    add("rep_boxed", rest_after(Bx(Sp(Rep(Bx(Sp(Just(0))), P(1), P(2))))), n=3, pre="t[1] <= t[2]", aims="dyn path")
    # deeper bounds (thorough)
    add("rep_bounds_n5", rest_after(Sp(Rep(Sp(Just(0)), P(1), P(2)))), n=5, pre="t[1] <= t[2]", tier=T, timeout=1800)
    add("sep_flags_n5", rest_after(Sp(Sep(Sp(Just(0)), Just(1), P(2), P(3), FP(4), FP(5)))), n=5, pre="t[2] <= t[3]",
        tier=T, timeout=2400)
    add("sep_item2_n5", rest_after(Sp(Sep(Sp(Then(Just(0), Just(1))), Just(2), P(5), INF, FP(3), FP(4)))), n=5,
        tier=T, timeout=2400)
    add("sep_item2_n4", rest_after(Sp(Sep(Sp(Then(Just(0), Just(1))), Just(2), K(0), INF, FP(3), FP(4)))), n=4, always_accepts=True,
        tier=T, timeout=1800)
    return s


# ---------------------------------------------------------------------------------------------------
# C03 — result contract
def c03_core():
    s = []

    def add(name, node, tier=Q, aims="", n=3, mod="pc", **kw):
        s.append(Shape(f"c03_{name}", node, "contract", {"C03": tier}, n=n, mod=mod, aims=aims, **kw))

    add("choice_prefix", Or3(Tag(1, Then(Just(0), Just(1))), Tag(2, Then(Just(2), Just(3))), Tag(3, Just(4))),
        aims="trailing tokens after a complete match are rejected")
    add("or_not", Then(OrNot(Then(Just(0), Just(1))), OrNot(Any())), aims="optional prefix")
    add("rep", Rep(Just(0), P(1), P(2)), pre="t[1] <= t[2]", aims="repetition leaves an unconsumed tail => rejected")
    add("sep", Sep(Just(0), Just(1), K(0), INF, FP(2), FP(3)), aims="separated_by + trailing garbage")
    add("lookahead", Then(Rewind(Then(Just(0), Any())), Then(Any(), Then(Not(Then(Just(1), Just(2))), Any()))),
        aims="lookahead does not count as consumption (the inner parser of not() matches a prefix and then fails)")
    add("collect_exactly_capped", Or(Tag(1, CollectEx2B(Just(0), P(1))), Tag(2, Then(Just(2), Just(3)))),
        aims="collect_exactly over a repetition whose cap is below the array size: a failure that leaves no pending error of its own must still be reported with an error")
    add("lazy_seq", Lazy(Then(Just(0), Just(1))), aims="lazy(): accepts exactly the inputs of which g matches a prefix")
    add("lazy_choice", Lazy(Or(Then(Just(0), Just(1)), Just(2))), aims="lazy() over a choice")
    add("lazy_rep", Lazy(Rep(Just(0), P(1), K(2))), pre="t[1] <= 2", aims="lazy() over a bounded repetition")
    add("recover", Then(RecVia(Then(Just(0), Just(1)), To(Any(), 0xFB)), OrNot(Just(2))), mod="pt",
        aims="recovered result: has output AND errors; into_result is Err")
    add("recover_skip", RecSkipUntil(Then(Just(0), Just(1)), Any(), Just(2)), mod="pt", aims="skip_until recovery result contract")
    add("validate", Then(Validate(Any(), 1), OrNot(Validate(Just(0), 2))), mod="pt", aims="non-fatal errors: output + errors")
    add("emptyerr", Or(Then(Just(0), Just(1)), TryMap(Any(), 2)), mod="pe", aims="zero-sized error: a failure still carries one error")
    add("choice_prefix_n4", Or3(Tag(1, Then(Just(0), Then(Just(1), Just(2)))), Tag(2, Then(Just(3), Just(4))), Tag(3, Just(5))), n=4, tier=T)
    add("lazy_sep_n4", Lazy(Sep(Just(0), Just(1), K(1), INF, FK(False), FP(2))), n=4, tier=T)
    return s



# ---------------------------------------------------------------------------------------------------
# C04 — check mode and output elision are unobservable
def c04_core():
    s = []
    V = Validate

    def ingredients():
        return {
            "filter": lambda: Filter(Any(), 5),
            "try_map": lambda: TryMap(Any(), 5),
            "validate": lambda: V(OneOf2(5, 6), 1),
            "recover": lambda: RecVia(Then(Just(5), Just(6)), To(Any(), 0xFB)),
            "or_not2": lambda: OrNot(Then(Just(5), Just(6))),
            "choice_emit": lambda: Or(Then(V(Just(5), 1), Just(6)), V(Any(), 2)),
        }

    def pairs():
        # name -> (elided formulation, value-building formulation) as functions of the ingredient X
        return {
            "ignore_then": (lambda X: IgnoreThen(X(), Sp(Any())), lambda X: ThenSnd(X(), Sp(Any()))),
            "then_ignore": (lambda X: ThenIgnore(Sp(Any()), X()), lambda X: ThenFst(Sp(Any()), X())),
            "ignored": (lambda X: Ignored(X()), lambda X: MapUnit(X())),
            "to": (lambda X: To(X(), 0x55), lambda X: MapTo(X(), 0x55)),
            "to_span": (lambda X: ToSpan(Then(X(), OrNot(Just(0)))), lambda X: SpOnly(Then(X(), OrNot(Just(0))))),
            "to_slice": (lambda X: ToSliceLen(Then(X(), OrNot(Just(0)))), lambda X: SlLen(Then(X(), OrNot(Just(0))))),
            "delimited_by": (lambda X: Delim(X(), Sp(Any()), X()), lambda X: IgnoreThen(X(), ThenIgnore(Sp(Any()), X()))),
            "padded_by": (lambda X: Pad(Sp(Just(0)), X()), lambda X: IgnoreThen(X(), ThenIgnore(Sp(Just(0)), X()))),
            "repeated_unit": (lambda X: RepUnit(X(), P(1), P(2)), lambda X: SlLen(Rep(X(), P(1), P(2)))),
            "repeated_unit_fast": (lambda X: RepUnit(Then(X(), Just(0)), K(0), INF), lambda X: SlLen(Rep(Then(X(), Just(0)), K(0), INF))),
            "separated_unit": (lambda X: SepUnit(X(), Just(0), K(0), INF, FP(3), FP(4)), lambda X: SlLen(Sep(X(), Just(0), K(0), INF, FP(3), FP(4)))),
        }

    ing = ingredients()
    pr = pairs()
    quick_pick = {  # one ingredient per pair kind in the every-change tier; every combination in the thorough tier
        "ignore_then": "validate", "then_ignore": "filter", "ignored": "recover", "to": "try_map", "to_span": "or_not2",
        "to_slice": "choice_emit", "delimited_by": "validate", "padded_by": "or_not2", "repeated_unit": "filter",
        "repeated_unit_fast": "validate", "separated_unit": "try_map",
    }
    for pn, (fa, fb) in pr.items():
        for iname, X in ing.items():
            a = Then(fa(X), Sp(Rest()))
            b = Then(fb(X), Sp(Rest()))
            tier = Q if quick_pick[pn] == iname else T
            pre = "t[1] <= t[2]" if pn == "repeated_unit" else None
            n = 3
            s.append(Shape(f"c04_pair_{pn}_{iname}", a, "pair", {"C04": tier}, n=n, mod="pt", node2=b, pre=pre, timeout=900,
                           aims=f"{pn}: the elided formulation behaves like the value-building one when the elided parser contains {iname}"))
    # check() vs parse() on grammars with value-dependent ingredients in every position
    def cm(name, node=None, tier=Q, n=3, **kw):
        s.append(Shape(f"c04_check_{name}", node, "check_mode", {"C04": tier}, n=n, mod="pt", timeout=900,
                       aims="check(x) accepts iff parse(x) accepts and returns the identical error list", **kw))

    cm("choice_emit", tier=T, node=rest_after(Or3(Tag(1, Then(V(Just(0), 1), Just(1))), Tag(2, Then(V(Just(2), 2), V(Just(3), 3))), Tag(3, V(Any(), 1)))))
    cm("filter_try_map", rest_after(Or3(Tag(1, Then(Filter(Any(), 0), Just(1))), Tag(2, TryMap(Then(Any(), Any()), 2)), Tag(3, V(Any(), 1)))))
    cm("rep_sep", tier=T, node=Then(Rep(Then(V(Just(0), 1), Just(1)), K(0), INF), Sep(V(Just(2), 2), Just(3), K(0), INF, FK(False), FP(4))), n=4)
    cm("lookahead", rest_after(Or(Tag(1, Then(Rewind(V(Just(0), 1)), Then(Not(Just(1)), Any()))), Tag(2, AndIs(V(Any(), 2), NoneOf1(2))))))
    cm("recover_via", rest_after(Or(Tag(1, Then(RecVia(Then(Just(0), Just(1)), To(Any(), 0xFB)), Just(2))), Tag(2, Sp(Any())))))
    cm("recover_skip", tier=T, node=rest_after(RecSkipRetry(Then(V(Just(0), 1), Just(1)), Any(), Just(2))), n=4)
    cm("recover_skip_until", rest_after(RecSkipUntil(Then(Just(0), Just(1)), Any(), Just(2))), n=4, tier=T)
    cm("folds", rest_after(Then(Foldl(V(Just(0), 1), Then(V(Just(1), 2), Just(2))), OrNot(Foldr(Just(3), V(Any(), 3))))), n=4, tier=T)
    cm("boxed", rest_after(Bx(Or(Bx(Tag(1, Then(V(Just(0), 1), Just(1)))), Bx(Tag(2, Filter(Then(Any(), V(Any(), 2)), 2)))))), tier=T)
    cm("emptyerr", rest_after(Or(Then(Just(0), TryMap(Any(), 1)), Custom2(2))), tier=T)
    return s

# ---------------------------------------------------------------------------------------------------
# C05 — backtracking is atomic for emissions
def c05_core():
    s = []

    def add(name, node, tier=Q, aims="", n=3, **kw):
        s.append(Shape(f"c05_{name}", node, "emis", {"C05": tier, "C20": T}, n=n, mod="pt", aims=aims, **kw))

    V = Validate
    add("or", rest_after(Or(Tag(1, Then(V(Just(0), 1), Just(1))), Tag(2, Then(V(Any(), 2), OrNot(V(Just(2), 3)))))),
        aims="Or: emission inside the abandoned first alternative vanishes; emissions of the taken one stay, in order")
    for form in ("tuple", "vec", "array"):
        add(f"choice_{form}",
            rest_after(Or3(Tag(1, Then(V(Just(0), 1), Just(1))), Tag(2, Then(V(Just(2), 2), V(Just(3), 3))), Tag(3, V(Any(), 1)), form=form)),
            aims=f"Choice<{form}>: rewind truncates the emitted-error list after each failed alternative")
    add("rep_collect", rest_after(Rep(Then(V(Just(0), 1), Just(1)), K(0), INF)), n=4,
        always_accepts=True, aims="Repeated (iterator path): the last, failing iteration emitted before failing")
    add("rep_fast", rest_after(RepUnit(Then(V(Just(0), 1), Just(1)), K(0), INF)), n=4,
        always_accepts=True, aims="Repeated fast loop (unit parser, unbounded)")
    add("rep_counted", rest_after(RepUnit(Then(V(Just(0), 1), Just(1)), K(1), K(2))), n=4,
        aims="Repeated counted unit path")
    # (a separated_by whose item AND separator both emit, with symbolic allow_leading / allow_trailing, runs out of memory at
    # 14 GB even at N = 3; the separator-side rewinds are covered with an emitting separator in sep_item_partial)
    add("sep_item_partial", rest_after(Sep(Then(V(Just(0), 1), Just(1)), V(Just(2), 2), K(0), INF, FK(False), FP(3))), n=4, timeout=900,
        always_accepts=True, tier=T, aims="item emits then fails after a separator")
    add("or_not", rest_after(OrNot(Then(V(Just(0), 1), Just(1)))), always_accepts=True, aims="OrNot: emission of the failed optional vanishes")
    add("not", rest_after(Then(Not(Then(V(Any(), 1), Just(0))), V(Any(), 2))),
        aims="Not: nothing emitted inside negative lookahead is reported, whether the inner parser succeeds or fails")
    add("and_is_kept", rest_after(AndIs(V(Any(), 1), NoneOf1(0))),
        aims="and_is: emission of A (whose output is kept) must be reported")
    add("and_is_fail", rest_after(Or(Tag(1, AndIs(V(Any(), 1), NoneOf1(0))), Tag(2, V(Any(), 2)))),
        aims="and_is fails in B: A's emission vanishes with the alternative")
    add("rewind_kept", Then(Rewind(V(Just(0), 1)), V(Any(), 2)),
        aims="rewind: emission of the sub-parser whose output is kept must be reported")
    add("rewind_fail", rest_after(Or(Tag(1, Then(Rewind(V(Just(0), 1)), Just(1))), Tag(2, V(Any(), 2)))),
        aims="rewind then failure inside an alternative")
    add("foldl", rest_after(Foldl(V(Just(0), 1), Then(V(Just(1), 2), Just(2)))), n=4,
        tier=T, aims="foldl: the failing last iteration's emission vanishes")
    add("foldr", rest_after(Foldr(Then(V(Just(0), 1), Just(1)), V(Any(), 2))), n=4, tier=T, aims="foldr likewise")
    add("recover_first_attempt", rest_after(RecVia(Then(V(Any(), 1), Just(0)), To(V(Any(), 2), 0xFB))),
        aims="recover_with: emissions of the failed first attempt vanish; the strategy's stay; then the recovered error")
    add("nested_or_in_rep", rest_after(Rep(Or(Tag(1, Then(V(Just(0), 1), Just(1))), Tag(2, V(Just(0), 2))), K(0), INF)), n=4, tier=T,
        timeout=1200, always_accepts=True, aims="choice inside repetition")
    add("or_n4", rest_after(Or(Tag(1, Then(V(Just(0), 1), Then(V(Just(1), 2), Just(2)))), Tag(2, Then(V(Any(), 3), OrNot(V(Just(3), 1)))))), n=4, tier=T,
        timeout=1200)
    return s


# ---------------------------------------------------------------------------------------------------
# C06 — primary error = furthest failure (BitErr: exact set union)
def c06_core():
    s = []

    def add(name, node, tier=Q, aims="", n=3, **kw):
        s.append(Shape(f"c06_{name}", node, "far", {"C06": tier, "C20": T}, n=n, mod="pb", aims=aims, **kw))

    add("depths", Or3(Then(Just(0), Then(Just(1), Just(2))), Then(Just(3), Just(4)), Just(5)),
        aims="alternatives failing at different depths: the deepest wins; equal depths merge")
    add("depths_vec", Or3(Then(Just(0), Then(Just(1), Just(2))), Then(Just(3), Just(4)), Just(5), form="vec"),
        aims="same through Choice<Vec>")
    add("rep_then", Then(Rep(Just(0), K(0), INF), Just(1)),
        aims="the failed last item of a repetition and the parser that follows fail at the same position: union")
    add("or_not_then", Then(OrNot(Then(Just(0), Just(1))), Then(Just(2), End())),
        aims="a failed optional that got further than the eventual failure keeps the primary error")
    add("sep", Then(Sep(Just(0), Just(1), K(1), INF, FK(False), FK(False)), Just(2)), n=4,
        aims="separator / item / follower expectations")
    add("one_none_any", Or3(Then(OneOf2(0, 1), Just(2)), Then(NoneOf1(3), Then(Any(), Any())), Then(Select(4), End())),
        aims="one_of / none_of / any / select / end error construction sites")
    add("just_seq", Or(Just2(0, 1), Then(Just(2), Just2(3, 4))), aims="just(sequence) failing at its k-th element")
    add("try_map_far", Or(Then(Just(0), TryMap(Any(), 1)), Then(Just(2), Just(3))),
        aims="a user error (try_map) raised at the furthest position is preserved")
    add("try_map_inner_fails", Or(Then(Just(0), Just(1)), TryMap(Just(2), 3)),
        aims="try_map whose INNER parser fails must leave the pending error of an earlier, deeper alternative in place")
    add("try_map_ok_pending", Then(TryMap(Then(Just(0), OrNot(Just(1))), 2), Just(3)),
        aims="try_map that SUCCEEDS must keep the error its inner parser left pending at that error's own position (union with the follower's failure)")
    add("three_failures", Or3(Just(0), Then(Just(1), Then(Just(2), TryMap(Any(), 3))), Then(Just(4), Just(5))),
        aims="three failures in the order p0, then a user error at p2 > p0 (filed through add_alt_err), then p1 with p0 < p1 <= p2: the user error at the true furthest position stays")
    add("three_failures_custom", Or3(Just(0), Then(Just(1), Custom2(2)), Then(Just(3), Just(4))),
        aims="same with a custom parser that fails after consuming two tokens")
    add("custom_far", Or(Then(Just(0), Custom2(1)), Then(Any(), Just(2))),
        aims="a user error from custom at the furthest position is preserved")
    add("try_map_with", Or(TryMapWith(Then(Any(), Any()), 0), Then(Just(1), Just(2))), aims="try_map_with error position")
    add("trailing", Then(Just(0), OrNot(Just(1))), aims="the implicit end(): unconsumed tail is the failure")
    s.append(Shape("c06_filter_found", Then(Just(0), Filter(Any(), 1)), "far_found", {"C06": Q, "C20": T}, n=3, mod="pb", finding="F8",
                   aims="filter rejection: found must be the token at the start of the reported span, None only at end of input"))
    add("depths_n4", Or3(Then(Just(0), Then(Just(1), Then(Just(2), Just(3)))), Then(Just(4), Then(Just(5), Just(6))), Just(7)), n=4, tier=T,
        timeout=1200)
    add("rep_sep_n4", Then(Rep(Then(Just(0), Just(1)), K(0), INF), Sep(Just(2), Just(3), K(1), INF, FK(False), FK(True))), n=4, tier=T, timeout=1800)
    return s


# ---------------------------------------------------------------------------------------------------
# C08 — recovery
def c08_core():
    s = []

    def add(name, node, tier=Q, aims="", n=3, **kw):
        s.append(Shape(f"c08_{name}", node, "emis", {"C08": tier, "C20": T, "C03": T}, n=n, mod="pt", aims=aims, **kw))

    FB = lambda: To(Any(), 0xFB)
    add("via_top", rest_after(Sp(RecVia(Tag(1, Then(Just(0), Just(1))), Sp(FB())))), content="okfail",
        aims="via_parser: transparent when p succeeds; fallback output + exactly one error otherwise; both fail => failure")
    add("via_in_or_first", rest_after(Or(Tag(1, Then(RecVia(Then(Just(0), Just(1)), FB()), Just(2))), Tag(2, Sp(Any())))),
        aims="recovery inside the first alternative, which then fails: the recovered error must vanish")
    add("via_in_or_second", rest_after(Or(Tag(1, Then(Just(0), Then(Just(1), Just(2)))), Tag(2, RecVia(Then(Just(3), Just(4)), FB())))), content="okfail",
        aims="an earlier alternative failed further ahead: the recovered error is that one")
    add("via_both_fail", RecVia(Then(Just(0), Just(1)), To(Then(Any(), Then(Just(2), Just(3))), 0xFB)), content="okfail",
        aims="p fails early, the fallback fails FURTHER ahead: the combinator fails with p's error (the would-be primary error), not the fallback's")
    add("via_in_rep", rest_after(Rep(RecVia(Then(Just(0), Just(1)), To(Just(2), 0xFB)), K(0), INF)), n=4, timeout=900,
        aims="recovery inside repetition")
    add("via_under_or_not", rest_after(OrNot(RecVia(Then(Just(0), Just(1)), To(Just(2), 0xFB)))), aims="recovery under or_not")
    add("via_nested", rest_after(RecVia(RecVia(Then(Just(0), Just(1)), To(Just(2), 0xFA)), FB())),
        aims="recovery nested in recovery")
    add("skip_until", rest_after(Sp(RecSkipUntil(Tag(1, Then(Just(0), Just(1))), Any(), Just(2)))), n=4, timeout=900,
        aims="skip_until consumes the fewest skip steps after which `until` matches (until is consumed)")
    add("skip_until_until2", rest_after(Sp(RecSkipUntil(Tag(1, Then(Just(0), Just(1))), Any(), Then(Just(2), Just(3))))), n=4, timeout=900,
        aims="a two-token `until` that matches its first token and then fails must be given back before the next skip step (the real terminator may overlap the failed attempt)")
    add("skip_retry", rest_after(Sp(RecSkipRetry(Tag(1, Then(Just(0), Just(1))), Any(), Just(2)))), n=4, timeout=900,
        aims="skip_then_retry_until: retry p after each skip; give up when until matches or skip fails")
    add("skip_retry_emitting", rest_after(RecSkipRetry(Then(Validate(Just(0), 1), Just(1)), Any(), Just(2))), n=4, timeout=900,
        aims="only an error-free retry is accepted")
    add("skip_retry_dirty_then_clean", rest_after(RecSkipRetry(Or(Tag(1, Validate(Just(0), 1)), Tag(2, Just(1))), Any(), Just(2))), n=3, timeout=900,
        aims="a retry that succeeds WITH an emission is not accepted and must leave no trace; a later error-free retry is accepted: only the recovered error is reported")
    add("via_n4", rest_after(Sp(RecVia(Tag(1, Then(Just(0), Then(Just(1), Just(2)))), Sp(To(Then(Any(), Any()), 0xFB))))), n=4, tier=T, timeout=1200)
    add("skip_until_n5", rest_after(Sp(RecSkipUntil(Tag(1, Then(Just(0), Just(1))), Any(), Just(2)))), n=5, tier=T, timeout=2400)
    return s


# ---------------------------------------------------------------------------------------------------
def families():
    fams = [
        ("c01", "C01", c01_core()),
        # every 13th of the 1600 enumerated depth-2 trees (123 shapes): compiled always, run only in the thorough tier,
        # where VERIF_SEED selects CV_SAMPLE (40) of them per invocation
        ("c01s", "C01", c01_sampled()[::13]),
        ("c02", "C02", c02_core()),
        ("c03", "C03", c03_core()),
        ("c04", "C04", c04_core()),
        ("c05", "C05", c05_core()),
        ("c06", "C06", c06_core()),
        ("c08", "C08", c08_core()),
    ]
    return fams
