#!/bin/bash
# thorall.sh props... — validation run of the thorough tier in a separate cache (no evidence written); development aid
cd "$(dirname "$0")/.."
mkdir -p .cache/thor
for p in "$@"; do
  t0=$(date +%s)
  CV_CACHE=/tmp/probe/thor CV_THOROUGH_JOBS=${TJ:-3} CV_THOROUGH_MEM_KB=${TM:-12000000} python3 tools/cv.py check $p --tier thorough --no-evidence > .cache/thor/$p.out 2> .cache/thor/$p.err
  echo "$p thorough rc=$? $(( $(date +%s) - t0 ))s $(grep '^SUMMARY' .cache/thor/$p.out)"
done
