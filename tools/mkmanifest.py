#!/usr/bin/env python3
"""Writes /verif/MANIFEST.json from the table below (kept here so that the manifest stays consistent with
what cv.py can actually run). Run after changing CLAIMED / NOT_APPLICABLE."""
import json
import os

VERIF = os.path.dirname(os.path.dirname(os.path.abspath(__file__)))

TECH = ("bounded model checking of the real chumsky code: Kani 0.68 compiles /repo's working tree to a goto "
        "program, CBMC 6.11 symbolically executes it with symbolic input tokens / length / grammar parameters, "
        "CaDiCaL decides each harness; counterexamples are replayed natively before being reported")

NOTE_COMMON = ("Bounded: every input up to N tokens and every value of the symbolic grammar parameters, for the listed "
               "grammar shapes (the shape itself is a Rust type and is enumerated, not symbolic). Trusted: rustc/Kani "
               "MIR->goto, CBMC, CaDiCaL, the harness-side oracle. Build: default-features off (no stacker), "
               "memoization on with hashbrown replaced by an association-list stand-in, debug-assertions off, "
               "overflow-checks on. Unwinding assertions are on: a too-small bound is reported as inconclusive (exit 2), "
               "never as success.")

# property -> (level text, extra note)
CLAIMED = {
    "C01": ("For each catalogue grammar shape (primitives, then/ignore_then/then_ignore/group, or/choice in tuple, Vec "
            "and array form, or_not/not/and_is/rewind, delimited_by/padded_by, map/to/ignored/filter/try_map, boxed "
            "variants) the solver shows chumsky(g, x) == PEG-reference(g, x) — acceptance, output and the extent "
            "consumed by every sub-parser — for ALL byte strings x up to N=3 (quick) / 4 (thorough) and ALL values of "
            "the symbolic tokens of g.", "oracle = harness/src/refsem.rs (PEG interpreter executed symbolically in the "
            "same query)"),
}

NOT_APPLICABLE = {
}

PENDING_REASON = "check not built yet in this round (planned: see DESIGN.md section 5)"

ALL = ["C%02d" % i for i in range(1, 21)]


def main():
    checks = []
    for p in ALL:
        if p not in CLAIMED:
            continue
        text, note = CLAIMED[p]
        checks.append({
            "property_id": p,
            "quick_cmd": f"python3 tools/cv.py check {p} --tier quick",
            "thorough_cmd": f"python3 tools/cv.py check {p} --tier thorough",
            "evidence_file": f"evidence/{p}.json",
            "replay_cmd_template": "python3 tools/cv.py replay {path}",
            "engine": "kani-cbmc",
            "level_claimed": {"category": "model_checking", "text": text, "design_ref": f"DESIGN.md section 5 ({p})"},
            "level_note": NOTE_COMMON + " " + note,
            "technique": TECH,
        })
    na = []
    for p in ALL:
        if p in CLAIMED:
            continue
        na.append({"property_id": p, "reason": NOT_APPLICABLE.get(p, PENDING_REASON)})
    man = {
        "version": 1,
        "setup_cmd": "python3 tools/cv.py setup",
        "hooks": {
            "guard": "chumsky_verif",
            "enable": "no source hooks are needed: every observation goes through chumsky's public API; the harness crate "
                      "/verif/harness depends on /repo by path and is rebuilt from the working tree by every check",
            "baseline_off_cmd": "cd /repo && cargo test --workspace --no-fail-fast --offline",
            "source_commits": [],
            "add_only": True,
        },
        "engines": [{
            "name": "kani-cbmc",
            "path": "tools/cv.py",
            "serves_properties": [p for p in ALL if p in CLAIMED],
            "kind_free_text": "Kani 0.68.0 -> CBMC 6.11.0 -> CaDiCaL; harness crate /verif/harness (path dependency on /repo); "
                              "runner tools/cv.py (export-json results, concrete playback, native replay, known findings)",
        }],
        "checks": checks,
        "not_applicable": na,
        "notes": "Exit codes: 0 held, 1 VIOLATION, 2 inconclusive (never success). Known findings: known_findings.json.",
    }
    with open(os.path.join(VERIF, "MANIFEST.json"), "w") as f:
        json.dump(man, f, indent=1)
    print("MANIFEST.json:", len(checks), "checks,", len(na), "not_applicable")


if __name__ == "__main__":
    main()
