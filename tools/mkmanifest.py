#!/usr/bin/env python3
"""Writes /verif/MANIFEST.json from the table below (kept here so that the manifest stays consistent with
what cv.py can actually run). Run after changing CLAIMED / NOT_APPLICABLE."""
import json
import os

VERIF = os.path.dirname(os.path.dirname(os.path.abspath(__file__)))

TECH = ("bounded model checking of the real chumsky code: Kani 0.68 compiles /repo's working tree to a goto "
        "program, CBMC 6.11 symbolically executes it with symbolic input tokens / length / grammar parameters, "
        "CaDiCaL decides each harness; counterexamples are replayed natively before being reported")

NOTE_COMMON = ("Bounded: every input up to N tokens and every value of the symbolic grammar parameters, for the listed "
               "grammar shapes (the shape itself is a Rust type and is enumerated, not symbolic). Trusted: rustc/Kani "
               "MIR->goto, CBMC, CaDiCaL, the harness-side oracle. Build: default-features off (no stacker), "
               "memoization on with hashbrown replaced by an association-list stand-in, debug-assertions off, "
               "overflow-checks on. Unwinding assertions are on: a too-small bound is reported as inconclusive (exit 2), "
               "never as success.")

# property -> (level text, extra note)
def _t(what, oracle):
    return (what, oracle)


CLAIMED = {
    "C01": _t("For each catalogue grammar shape (primitives, then/ignore_then/then_ignore/group, or/choice in tuple, Vec and array "
              "form, or_not/not/and_is/rewind, delimited_by/padded_by, map/to/ignored/filter/try_map, boxed variants) the solver "
              "shows chumsky(g, x) == PEG-reference(g, x) — acceptance, output and the extent consumed by every sub-parser — for "
              "ALL byte strings x up to N=3 (quick) / 4 (thorough) and ALL values of the symbolic tokens of g.",
              "oracle = harness/src/refsem.rs (PEG interpreter executed symbolically in the same query)"),
    "C02": _t("repeated()/separated_by() with SYMBOLIC at_least/at_most/exactly (0..=4) and symbolic allow_leading/allow_trailing, "
              "collected into Vec / counted / enumerated / collect_exactly / folded / used as unit parsers: items, order, count "
              "bounds, greediness and the position left behind equal the reference semantics for all inputs up to N=3..4 (5 thorough).",
              "oracle = refsem Rep/Sep with the stated permissive corners (leading separator with zero items; trailing separator at at_most)"),
    "C03": _t("On parse() and check() of grammars from the C01/C02/C08 classes and lazy(): error-free acceptance iff the reference "
              "semantics matches the WHOLE input without non-fatal errors; has_output or has_errors; into_result is Ok iff error-free; "
              "check agrees with parse — for all inputs up to N=3 (4 thorough).", "oracle = refsem on the whole input"),
    "C04": _t("Differential on the real code: each output-eliding combinator against its value-building formulation (11 pairs, elided "
              "parser containing a filter / try_map / validate / recover_with / or_not / emitting choice) and check() against parse(): same "
              "acceptance, output, remainder and number of reported errors (every emitter reports a distinct number of copies, so the "
              "number identifies the set) for all inputs up to N=3.", "no oracle: two runs of the real code"),
    "C05": _t("One shape per backtracking site (or, choice tuple/Vec/array, repeated collect / fast loop / counted, separated_by, "
              "or_not, not, and_is, rewind, foldl/foldr, recover_with) with validate emitters inside the abandoned and inside the kept "
              "part: when there is an output, the SET of reported emissions equals the emissions of the surviving path of the reference "
              "semantics, for all inputs up to N=3..4.",
              "oracle = refsem emission bookkeeping; emitter k reports 2^(k-1) copies and the length of ParseResult::errors() is compared"),
    "C06": _t("With an error type whose merge is an exact set union (BitErr): the single error of a rejected parse lies at the furthest "
              "failure position of the reference semantics (not earlier, not later), its expected set equals the union of what failed there, "
              "a user error raised there is preserved, span inside the input, found = token at the span start — for all inputs up to N=3..4.",
              "oracle = refsem furthest-failure bookkeeping"),
    "C07": _t("Well-formedness of every captured span/slice: start<=end<=len, character boundaries on &str (1-4 byte characters), "
              "children nested and ordered in the parent, empty matches get empty spans between their neighbours, to_slice is the caller's "
              "memory (pointer identity) and equals input[span], token-carried gapped spans (Input::map by value and by reference, IterInput; end-of-input span beyond the last token, possibly non-empty) span first.start..last.end; span "
              "arguments of try_map / validate / foldl_with / foldr_with — for all inputs within the bounds.", "direct invariants on the real run"),
    "C08": _t("recover_with(via_parser | skip_until | skip_then_retry_until) at top level, inside or, inside repeated, under or_not and "
              "nested: transparent where p succeeds; strategy output plus exactly one extra error otherwise; both fail => failure, nothing "
              "consumed; skip_until minimal; skip_then_retry_until accepts only error-free retries — equal to the reference semantics for all "
              "inputs up to N=3..4.", "oracle = refsem RecVia/RecSkipUntil/RecSkipRetry"),
    "C09": _t('Whole-parser: concrete operator tables against the textbook binding-power reading of every byte string: quick {prefix(2), infix(left 1)} as a tuple table and as a Vec of boxed operators, and {infix(left 1), postfix(3)} at N=3; thorough adds the 3-operator table at N=3 and {infix left(1), infix left|right(2)} at N=5. One operator step of Infix/Prefix/Postfix (the real do_parse_* code) with SYMBOLIC power (<2^15), associativity and min_power and the recursion stubbed: attempted iff left_power >= min_power, operand requested with right_power, left/right power ordering, an operator whose operand is missing is left unconsumed.',
              'oracle = textbook reading written out per input pattern (cross-checked natively against a recursive textbook evaluator); recursion stub'),
    "C10": _t('One generic grammar instantiated at &[u8], &[u8;3], BoxedStream (over a 3-token array), IterInput, Input::map, map_span and &str (ASCII): same acceptance, output with spans, error count and error position as the &[u8] run for all inputs up to N=3; a Stream over a pull-counting iterator pulls each item at most once however much the parser backtracks and accepts what the slice grammar accepts.',
              'no oracle: differential between input kinds (Stream with symbolic length: closed-form acceptance oracle)'),
    "C11": _t('Plain vs memoized grammar (shared boxed memoized parser hit twice at one position in parse and in check mode, the same memoized parser at two positions, memoized at several positions, under map_err / recover_with): same acceptance, output, error count and error span for all inputs up to N=3; the memoized left-recursive grammar (bare, and with map_err directly around the cut) returns for every input (recursion unwinding assertion).',
              'differential; hashbrown replaced by a fixed-capacity association list'),
    "C12": _t("declare/define grammars (self-recursive nesting, mutually recursive pair) against their hand unrolling for all inputs up to N=3 and all symbolic tokens; clone / boxed clone survive the drop of the original and every handle is dropped under Kani's pointer checks; thorough: recursive() itself at N=2.",
              'oracle = direct recursive recogniser; Location::caller stubbed'),
    "C13": _t("A history of two parses with independent symbolic inputs on one parser value, through clone, &, Box, Rc, Arc, boxed(), Either, and through a clone / boxed clone of a recursive parser whose original was dropped: the later result equals a fresh parser's.",
              'differential against a freshly built parser / direct oracle'),
    "C14": _t('int(r), digits, ascii::ident, keyword, whitespace, inline_whitespace, padded on ARBITRARY bytes up to N=3..4; newline on &str over the eight terminators plus characters whose low byte is CR/LF; ascii::ident on &str with non-ASCII characters whose low byte is an ASCII letter/digit: accept/reject, matched length and returned slice (pointer identity) equal hand recognisers; &str and &[u8] agree on ASCII.',
              'oracle = recognisers written with plain loops'),
    "C15": _t("Length-prefixed, static-cap, delimiter-echo (by value and through &P, parse and check), nearest-provider (nested, per iteration, "
              "after an abandoned alternative), try_configure and map_ctx grammars against direct oracles for all inputs up to N=3..4.", "direct oracles"),
    "C16": _t("nested_in over token trees (depth 2: <=2 outer tokens, groups of <=2 leaves; depth 3 and 4: chains with <= 2 tokens per level): inner parser sees exactly the "
              "inner tokens and must consume them, outer advances by one token, inner emissions surface (also from the innermost of three levels, also next to an inner failure), a nested parse that "
              "succeeds keeps the error pending from an earlier alternative, failed / abandoned nested parses are backtracked over — against a direct oracle.",
              "direct oracle over the symbolic tree"),
    "C17": _t("Decorated vs undecorated grammar (labelled, as_context, map_err, map_err_with_state) with BitErr: same acceptance, output, error count, "
              "span and found; label replaces expectations only at the first token, inner expectations kept further in, as_context adds (label, span); "
              "map_err applied to exactly its own parser's failures and transparent on success — for all inputs up to N=3.", "differential + hand oracle per shape"),
    "C18": _t("A counting+hashing snapshot Inspector observed in map_with/select/foldl_with closures equals the fold over exactly the tokens before the "
              "current position after or, or_not, repeated, separated_by, rewind, not, and_is, recover_with, padded; with_state starts fresh per invocation "
              "and leaves the outer state untouched — for all inputs up to N=3..4.", "direct invariant"),
    "C19": _t("With drop-counting outputs: live values == values in the returned output while the result is alive, zero after dropping it, no double "
              "drop, for parse and check, through group array/tuple, collect_exactly (array, Box), Vec, folds, abandoned alternatives, recovery and "
              "lookahead; clone-counting tokens: only the caller's buffer stays live — plus Kani's pointer/free checks — for all inputs up to N=3..4.",
              "direct invariant + CBMC memory-safety checks"),
    "C20": _t("Kani's built-in checks on the real code (panic, unwrap on None, overflow, bounds, pointer validity) and the unwinding assertions (no loop or recursion can exceed the bound for any input of that size) on the wrapper x failing-inner matrix (inner: just seq, custom, try_map, filter, capped collect_exactly, select; wrappers incl. stacked recover_with + map_err) with a zero-sized and a span error type, on &str from arbitrary Unicode scalar values, one_of over an unbounded range with an expectation-enumerating error type, and (thorough) on every other property's harness; failure always carries an error.",
              'no oracle: CBMC property checks + result contract'),
}

NOT_APPLICABLE = {
}

PENDING_REASON = "check not built yet in this round (planned: see DESIGN.md section 5)"

ALL = ["C%02d" % i for i in range(1, 21)]


def main():
    checks = []
    for p in ALL:
        if p not in CLAIMED:
            continue
        text, note = CLAIMED[p]
        checks.append({
            "property_id": p,
            "quick_cmd": f"python3 tools/cv.py check {p} --tier quick",
            "thorough_cmd": f"python3 tools/cv.py check {p} --tier thorough",
            "evidence_file": f"evidence/{p}.json",
            "replay_cmd_template": "python3 tools/cv.py replay {path}",
            "engine": "kani-cbmc",
            "level_claimed": {"category": "model_checking", "text": text, "design_ref": f"DESIGN.md section 5 ({p})"},
            "level_note": NOTE_COMMON + " " + note,
            "technique": TECH,
        })
    na = []
    for p in ALL:
        if p in CLAIMED:
            continue
        na.append({"property_id": p, "reason": NOT_APPLICABLE.get(p, PENDING_REASON)})
    man = {
        "version": 1,
        "setup_cmd": "python3 tools/cv.py setup",
        "hooks": {
            "guard": "chumsky_verif",
            "enable": "no source hooks are needed: every observation goes through chumsky's public API; the harness crate "
                      "/verif/harness depends on /repo by path and is rebuilt from the working tree by every check",
            "baseline_off_cmd": "cd /repo && cargo test --workspace --no-fail-fast --offline",
            "source_commits": [],
            "add_only": True,
        },
        "engines": [{
            "name": "kani-cbmc",
            "path": "tools/cv.py",
            "serves_properties": [p for p in ALL if p in CLAIMED],
            "kind_free_text": "Kani 0.68.0 -> CBMC 6.11.0 -> CaDiCaL; harness crate /verif/harness (path dependency on /repo); "
                              "runner tools/cv.py (export-json results, concrete playback, native replay, known findings)",
        }],
        "checks": checks,
        "not_applicable": na,
        "notes": "Exit codes: 0 held, 1 VIOLATION, 2 inconclusive (never success). Known findings: known_findings.json.",
    }
    with open(os.path.join(VERIF, "MANIFEST.json"), "w") as f:
        json.dump(man, f, indent=1)
    print("MANIFEST.json:", len(checks), "checks,", len(na), "not_applicable")


if __name__ == "__main__":
    main()
