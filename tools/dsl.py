"""Grammar-shape DSL: every constructor yields BOTH the real chumsky builder expression (calls into
harness/src/prims.rs, which are one-line wrappers of the real combinators) and the refsem AST constant
(harness/src/refsem.rs) of the same shape, plus a human-readable rendering for the evidence files."""


class N:
    def __init__(self, rs, ast, desc, depth, params=(), flags=(), pmax=None, sites=0, ids=()):
        self.rs = rs          # chumsky builder expression (Rust)
        self.ast = ast        # refsem::G constant expression (Rust)
        self.desc = desc      # rendering
        self.depth = depth    # AST depth (drives the recursion unwind bound)
        self.params = set(params)   # indices into t[] used
        self.flags = set(flags)     # feature flags: 'sep', 'sep_lead', 'rec', ...
        self.pmax = dict(pmax or {})  # parameter index -> assumed maximum (count parameters)
        self.sites = sites            # number of error-emitting sites (validate / recover_with nodes)
        self.ids = tuple(ids)         # validate ids used
        self.total = False            # never fails, whatever the input (conservative: False when unsure)
        self.all = False              # total AND always consumes the whole remaining input


def _t(n, total, all_=False):
    n.total = bool(total)
    n.all = bool(all_) and n.total
    return n


def _mk(rs, ast, desc, kids=(), params=(), flags=(), pmax=None, site=0, ident=None):
    d = 1 + max([k.depth for k in kids], default=0)
    p = set(params)
    f = set(flags)
    m = dict(pmax or {})
    for k in kids:
        p |= k.params
        f |= k.flags
        for i, v in k.pmax.items():
            m[i] = min(v, m.get(i, v))
    sites = site + sum(k.sites for k in kids)
    ids = tuple(i for k in kids for i in k.ids) + ((ident,) if ident is not None else ())
    return N(rs, ast, desc, d, p, f, m, sites, ids)


# ---- primitives ---------------------------------------------------------------------------------
def Just(i):
    return _mk(f"j(t[{i}])", f"G::Just({i})", f"t{i}", params=[i])


def Just2(i, k):
    return _mk(f"j2(t[{i}], t[{k}])", f"G::Just2({i}, {k})", f"just[t{i},t{k}]", params=[i, k])


def Any():
    return _mk("any_()", "G::Any", "any")


def OneOf2(i, k):
    return _mk(f"one2(t[{i}], t[{k}])", f"G::OneOf2({i}, {k})", f"one_of[t{i},t{k}]", params=[i, k])


def NoneOf1(i):
    return _mk(f"none1(t[{i}])", f"G::NoneOf1({i})", f"none_of[t{i}]", params=[i])


def Select(i):
    return _mk(f"sel(t[{i}])", f"G::Select({i})", f"select(>t{i})", params=[i])


def End():
    return _mk("end_()", "G::End", "end")


def Empty():
    return _t(_mk("empty_()", "G::Empty", "empty"), True, False)


def Custom2(i):
    return _mk(f"custom2(t[{i}])", f"G::Custom2({i})", f"custom2(t{i})", params=[i])


# ---- sequencing ---------------------------------------------------------------------------------
def Then(a, b):
    return _t(_mk(f"then({a.rs}, {b.rs})", f"G::Then(&{a.ast}, &{b.ast})", f"({a.desc} {b.desc})", [a, b]), a.total and b.total, b.all)


def IgnoreThen(a, b):
    return _t(_mk(f"ithen({a.rs}, {b.rs})", f"G::IgnoreThen(&{a.ast}, &{b.ast})",
               f"({a.desc} >> {b.desc})", [a, b]), a.total and b.total, b.all)


def ThenIgnore(a, b):
    return _t(_mk(f"theni({a.rs}, {b.rs})", f"G::ThenIgnore(&{a.ast}, &{b.ast})",
               f"({a.desc} << {b.desc})", [a, b]), a.total and b.total, b.all)


def Seq3(a, b, c, form="tuple"):
    fn = {"tuple": "seq3", "array": "seq3_arr"}[form]
    return _t(_mk(f"{fn}({a.rs}, {b.rs}, {c.rs})", f"G::Seq3(&{a.ast}, &{b.ast}, &{c.ast})",
               f"group{'[]' if form == 'array' else '()'}({a.desc}, {b.desc}, {c.desc})", [a, b, c]), a.total and b.total and c.total, c.all)


def Delim(o, body, c):
    return _t(_mk(f"delim({o.rs}, {body.rs}, {c.rs})", f"G::Delim(&{o.ast}, &{body.ast}, &{c.ast})",
               f"{body.desc}.delimited_by({o.desc}, {c.desc})", [o, body, c]), o.total and body.total and c.total, c.all)


def Pad(body, p):
    return _t(_mk(f"pad({body.rs}, {p.rs})", f"G::Pad(&{body.ast}, &{p.ast})",
               f"{body.desc}.padded_by({p.desc})", [body, p]), body.total and p.total, p.all)


# ---- choice / option / lookahead ----------------------------------------------------------------
def Or(a, b):
    return _t(_mk(f"or({a.rs}, {b.rs})", f"G::Or(&{a.ast}, &{b.ast})", f"({a.desc} | {b.desc})", [a, b]), a.total or b.total, a.all)


def Or3(a, b, c, form="tuple"):
    fn = {"tuple": "or3", "vec": "or3_vec", "array": "or3_arr"}[form]
    return _t(_mk(f"{fn}({a.rs}, {b.rs}, {c.rs})", f"G::Or3(&{a.ast}, &{b.ast}, &{c.ast})",
               f"choice<{form}>({a.desc}, {b.desc}, {c.desc})", [a, b, c]), a.total or b.total or c.total, a.all)


def OrNot(a):
    return _t(_mk(f"ornot({a.rs})", f"G::OrNot(&{a.ast})", f"{a.desc}?", [a]), True, a.all)


def Not(a):
    return _mk(f"not_({a.rs})", f"G::Not(&{a.ast})", f"!{a.desc}", [a], flags=["not"])


def AndIs(a, b):
    return _t(_mk(f"andis({a.rs}, {b.rs})", f"G::AndIs(&{a.ast}, &{b.ast})", f"({a.desc} & {b.desc})", [a, b]), a.total and b.total, a.all)


def Rewind(a):
    return _t(_mk(f"rew({a.rs})", f"G::Rewind(&{a.ast})", f"rewind({a.desc})", [a]), a.total, False)


# ---- mapping ------------------------------------------------------------------------------------
def Tag(k, a):
    return _t(_mk(f"tag({k}, {a.rs})", f"G::Tag({k}, &{a.ast})", f"{a.desc}#{k}", [a]), a.total, a.all)


def Sp(a):
    return _t(_mk(f"sp({a.rs})", f"G::Span(&{a.ast})", f"<{a.desc}>", [a]), a.total, a.all)


def To(a, c):
    return _t(_mk(f"to_({a.rs}, {c})", f"G::To(&{a.ast}, {c})", f"{a.desc}.to({c})", [a]), a.total, a.all)


def Ignored(a):
    return _t(_mk(f"ign({a.rs})", f"G::Ignored(&{a.ast})", f"{a.desc}.ignored()", [a]), a.total, a.all)


def Filter(a, i):
    return _mk(f"filt({a.rs}, t[{i}])", f"G::Filter(&{a.ast}, {i})", f"{a.desc}.filter(>t{i})", [a],
               params=[i], flags=["filter"])


def TryMap(a, i):
    return _mk(f"tmap({a.rs}, t[{i}])", f"G::TryMap(&{a.ast}, {i})", f"{a.desc}.try_map(>t{i})", [a],
               params=[i], flags=["try_map"])


def TryMapWith(a, i):
    return _mk(f"tmapw({a.rs}, t[{i}])", f"G::TryMapWith(&{a.ast}, {i})",
               f"{a.desc}.try_map_with(>t{i})", [a], params=[i], flags=["try_map_with"])


def Bx(a):
    """`.boxed()` — dyn path through go_emit/go_check; same semantics"""
    return _t(N(f"bx({a.rs})", a.ast, f"box[{a.desc}]", a.depth, a.params, a.flags | {"boxed"}, a.pmax, a.sites, a.ids), a.total, a.all)


# ---- repetition ---------------------------------------------------------------------------------
class Cnt:
    def __init__(self, kind, v=None):
        self.kind, self.v = kind, v

    @property
    def rs(self):
        return {"K": f"{self.v}usize", "P": f"t[{self.v}] as usize", "Inf": "usize::MAX"}.get(self.kind)

    @property
    def ast(self):
        return {"K": f"Cnt::K({self.v})", "P": f"Cnt::P({self.v})", "Inf": "Cnt::Inf"}[self.kind]

    @property
    def desc(self):
        return {"K": str(self.v), "P": f"t{self.v}", "Inf": "inf"}[self.kind]

    @property
    def params(self):
        return [self.v] if self.kind == "P" else []

    @property
    def pmax(self):
        return {self.v: CNT_MAX} if self.kind == "P" else {}


CNT_MAX = 4


def _pm(*cs):
    m = {}
    for c in cs:
        m.update(c.pmax)
    return m


def K(v):
    return Cnt("K", v)


def P(i):
    return Cnt("P", i)


INF = Cnt("Inf")


class Flag:
    def __init__(self, kind, v):
        self.kind, self.v = kind, v

    @property
    def rs(self):
        return ("true" if self.v else "false") if self.kind == "K" else f"(t[{self.v}] & 1 == 1)"

    @property
    def ast(self):
        return (f"Flag::K({'true' if self.v else 'false'})") if self.kind == "K" else f"Flag::P({self.v})"

    @property
    def desc(self):
        return str(bool(self.v)).lower() if self.kind == "K" else f"t{self.v}&1"

    @property
    def params(self):
        return [self.v] if self.kind == "P" else []


def FK(b):
    return Flag("K", b)


def FP(i):
    return Flag("P", i)


def Rep(a, lo, hi):
    if hi.kind == "Inf":
        rs = f"rep_inf({a.rs}, {lo.rs})"
    else:
        rs = f"rep({a.rs}, {lo.rs}, {hi.rs})"
    return _t(_mk(rs, f"G::Rep(&{a.ast}, {lo.ast}, {hi.ast})", f"{a.desc}{{{lo.desc},{hi.desc}}}", [a],
               params=lo.params + hi.params, flags=["rep"], pmax=_pm(lo, hi)), lo.kind == 'K' and lo.v == 0, False)


def RepExactly(a, n):
    return _mk(f"rep_exactly({a.rs}, {n.rs})", f"G::Rep(&{a.ast}, {n.ast}, {n.ast})",
               f"{a.desc}{{={n.desc}}}", [a], params=n.params, flags=["rep"], pmax=_pm(n))


def RepCount(a, lo, hi):
    if hi.kind == "Inf":
        rs = f"repcount_inf({a.rs}, {lo.rs})"
    else:
        rs = f"repcount({a.rs}, {lo.rs}, {hi.rs})"
    return _t(_mk(rs, f"G::RepCount(&{a.ast}, {lo.ast}, {hi.ast})", f"count({a.desc}{{{lo.desc},{hi.desc}}})",
               [a], params=lo.params + hi.params, flags=["rep"], pmax=_pm(lo, hi)), lo.kind == 'K' and lo.v == 0, False)


def Sep(item, sep, lo, hi, lead, trail):
    if hi.kind == "Inf":
        rs = f"sep_inf({item.rs}, {sep.rs}, {lo.rs}, {lead.rs}, {trail.rs})"
    else:
        rs = f"sep({item.rs}, {sep.rs}, {lo.rs}, {hi.rs}, {lead.rs}, {trail.rs})"
    fl = ["sep"]
    if not (trail.kind == "K" and not trail.v):
        fl.append("sep_trail")
    if not (lead.kind == "K" and not lead.v):
        fl.append("sep_lead")
    return _t(_mk(rs, f"G::Sep(&{item.ast}, &{sep.ast}, {lo.ast}, {hi.ast}, {lead.ast}, {trail.ast})",
               f"{item.desc}.sep_by({sep.desc}){{{lo.desc},{hi.desc}}}[lead={lead.desc},trail={trail.desc}]",
               [item, sep], params=lo.params + hi.params + lead.params + trail.params, flags=fl,
               pmax=_pm(lo, hi)), lo.kind == 'K' and lo.v == 0, False)


def RepUnit(a, lo, hi):
    if hi.kind == "Inf":
        rs = f"rep_unit_inf({a.rs}, {lo.rs})"
    else:
        rs = f"rep_unit({a.rs}, {lo.rs}, {hi.rs})"
    return _t(_mk(rs, f"G::RepUnit(&{a.ast}, {lo.ast}, {hi.ast})", f"unit({a.desc}{{{lo.desc},{hi.desc}}})", [a],
               params=lo.params + hi.params, flags=["rep"], pmax=_pm(lo, hi)), lo.kind == 'K' and lo.v == 0, False)


def _sepflags(lead, trail):
    fl = ["sep"]
    if not (trail.kind == "K" and not trail.v):
        fl.append("sep_trail")
    if not (lead.kind == "K" and not lead.v):
        fl.append("sep_lead")
    return fl


def SepUnit(item, sep, lo, hi, lead, trail):
    return _t(_mk(f"sep_unit({item.rs}, {sep.rs}, {lo.rs}, {hi.rs}, {lead.rs}, {trail.rs})",
               f"G::SepUnit(&{item.ast}, &{sep.ast}, {lo.ast}, {hi.ast}, {lead.ast}, {trail.ast})",
               f"unit({item.desc}.sep_by({sep.desc}){{{lo.desc},{hi.desc}}}[lead={lead.desc},trail={trail.desc}])",
               [item, sep], params=lo.params + hi.params + lead.params + trail.params, flags=_sepflags(lead, trail),
               pmax=_pm(lo, hi)), lo.kind == 'K' and lo.v == 0, False)


def SepCount(item, sep, lo, hi, lead, trail):
    return _t(_mk(f"sep_count({item.rs}, {sep.rs}, {lo.rs}, {hi.rs}, {lead.rs}, {trail.rs})",
               f"G::SepCount(&{item.ast}, &{sep.ast}, {lo.ast}, {hi.ast}, {lead.ast}, {trail.ast})",
               f"count({item.desc}.sep_by({sep.desc}){{{lo.desc},{hi.desc}}}[lead={lead.desc},trail={trail.desc}])",
               [item, sep], params=lo.params + hi.params + lead.params + trail.params, flags=_sepflags(lead, trail),
               pmax=_pm(lo, hi)), lo.kind == 'K' and lo.v == 0, False)


def CollectEx2(a):
    return _mk(f"collect_ex2({a.rs})", f"G::CollectEx2(&{a.ast})", f"{a.desc}*.collect_exactly[2]", [a], flags=["rep"])


def CollectEx2B(a, hi):
    return _mk(f"collect_ex2b({a.rs}, {hi.rs})", f"G::CollectEx2B(&{a.ast}, {hi.ast})", f"{a.desc}{{0,{hi.desc}}}.collect_exactly[2]", [a],
               params=hi.params, flags=["rep"], pmax=_pm(hi, hi))


def Enum(a, lo, hi):
    return _t(_mk(f"enum_({a.rs}, {lo.rs}, {hi.rs})", f"G::Enum(&{a.ast}, {lo.ast}, {hi.ast})",
               f"enumerate({a.desc}{{{lo.desc},{hi.desc}}})", [a], params=lo.params + hi.params, flags=["rep"],
               pmax=_pm(lo, hi)), lo.kind == 'K' and lo.v == 0, False)


def Lazy(a):
    return _t(_mk(f"lazy_({a.rs})", f"G::Lazy(&{a.ast})", f"{a.desc}.lazy()", [a]), a.total, a.all)


def Rest():
    return _t(_mk("rest()", "G::Rest", "rest"), True, True)


def Foldl(a, b):
    return _t(_mk(f"foldl_({a.rs}, {b.rs})", f"G::Foldl(&{a.ast}, &{b.ast})", f"foldl({a.desc}, {b.desc}*)",
               [a, b], flags=["rep"]), a.total, False)


def Foldr(a, b):
    return _t(_mk(f"foldr_({a.rs}, {b.rs})", f"G::Foldr(&{a.ast}, &{b.ast})", f"foldr({a.desc}*, {b.desc})",
               [a, b], flags=["rep"]), b.total, b.all)


# ---- non-fatal errors / recovery ----------------------------------------------------------------
def Validate(a, ident):
    return _t(_mk(f"val({a.rs}, {ident})", f"G::Validate(&{a.ast}, {ident})", f"{a.desc}.validate(emit {ident})",
               [a], flags=["validate"], site=1, ident=ident), a.total, a.all)


def RecVia(a, f):
    return _t(_mk(f"rec_via({a.rs}, {f.rs})", f"G::RecVia(&{a.ast}, &{f.ast})",
               f"{a.desc}.recover_with(via_parser({f.desc}))", [a, f], flags=["recover"], site=1), a.total or f.total, a.all and f.all)


def RecSkipUntil(a, skip, until):
    return _mk(f"rec_skip_until({a.rs}, {skip.rs}, {until.rs})",
               f"G::RecSkipUntil(&{a.ast}, &{skip.ast}, &{until.ast})",
               f"{a.desc}.recover_with(skip_until({skip.desc}, {until.desc}, FB))", [a, skip, until],
               flags=["recover"], site=1)


def RecSkipRetry(a, skip, until):
    return _mk(f"rec_skip_retry({a.rs}, {skip.rs}, {until.rs})",
               f"G::RecSkipRetry(&{a.ast}, &{skip.ast}, &{until.ast})",
               f"{a.desc}.recover_with(skip_then_retry_until({skip.desc}, {until.desc}))", [a, skip, until],
               flags=["recover"], site=1)


# ---- value-building formulations (C04 pairs): no refsem counterpart (ast is a dummy) ---------------
def _nx(rs, desc, kids):
    return _mk(rs, "G::Empty", desc, kids)


def ThenSnd(a, b):
    return _t(_nx(f"then_snd({a.rs}, {b.rs})", f"({a.desc} then {b.desc}).map(snd)", [a, b]), a.total and b.total, b.all)


def ThenFst(a, b):
    return _t(_nx(f"then_fst({a.rs}, {b.rs})", f"({a.desc} then {b.desc}).map(fst)", [a, b]), a.total and b.total, b.all)


def MapUnit(a):
    return _t(_nx(f"map_unit({a.rs})", f"{a.desc}.map(|_| ())", [a]), a.total, a.all)


def MapTo(a, c):
    return _t(_nx(f"map_to({a.rs}, {c})", f"{a.desc}.map(|_| {c})", [a]), a.total, a.all)


def ToSpan(a):
    return _t(_nx(f"to_span_({a.rs})", f"{a.desc}.to_span()", [a]), a.total, a.all)


def SpOnly(a):
    return _t(_nx(f"sp_only({a.rs})", f"{a.desc}.map_with(span)", [a]), a.total, a.all)


def ToSliceLen(a):
    return _t(_nx(f"to_slice_len({a.rs})", f"{a.desc}.to_slice().len", [a]), a.total, a.all)


def SlLen(a):
    return _t(_nx(f"sl_len({a.rs})", f"{a.desc}.map_with(span.len)", [a]), a.total, a.all)
