#!/bin/bash
# seedbatch.sh <jobs> <file with lines: id props only|->  — development aid
cd "$(dirname "$0")/.."
jobs=$1; list=$2
mkdir -p .cache/seedruns
while read -r s props only; do
  [ -z "$s" ] && continue
  t0=$(date +%s)
  if [ "$only" = "-" ] || [ -z "$only" ]; then
    CV_JOBS=$jobs python3 tools/seed.py run $s --tier quick --props $props > .cache/seedruns/$s.$props.log 2>&1
  else
    CV_JOBS=$jobs python3 tools/seed.py run $s --tier quick --props $props --only $only > .cache/seedruns/$s.$props.log 2>&1
  fi
  echo "$s $props rc=$? $(( $(date +%s) - t0 ))s $(grep '^MUTANT' .cache/seedruns/$s.$props.log)"
done < $list
