//! Association-list stand-in for `hashbrown` 0.15 with exactly the API subset chumsky calls.
//! Map semantics only (keys unique, last insert wins); no hashing, no probing, no SIMD.
//! Used ONLY to make `feature = "memoization"` encodable by CBMC (the real crate's foldhash
//! 64x64->128 multiply and SSE2 group probing do not finish). See /verif/DESIGN.md section 4.
#![no_std]
extern crate alloc;
use alloc::vec::Vec;
use core::borrow::Borrow;
use core::hash::Hash;

/// Fixed-capacity, heap-free association list. (A `Vec`-backed list made CBMC run out of memory: the table's
/// values are padded structs and several call sites push to it — see DESIGN section 4.) When the capacity is
/// exceeded an insertion is dropped: for a memo table this only means "not remembered", i.e. re-evaluation.
pub const CAP: usize = 6;

pub struct HashMap<K, V> {
    items: [Option<(K, V)>; CAP],
}

impl<K, V> Default for HashMap<K, V> {
    fn default() -> Self {
        HashMap { items: [None, None, None, None, None, None] }
    }
}

impl<K: Eq + Hash, V> HashMap<K, V> {
    pub fn new() -> Self {
        Self::default()
    }
    pub fn with_capacity(_n: usize) -> Self {
        Self::default()
    }
    pub fn len(&self) -> usize {
        let mut n = 0;
        let mut i = 0;
        while i < CAP {
            if self.items[i].is_some() {
                n += 1;
            }
            i += 1;
        }
        n
    }
    pub fn is_empty(&self) -> bool {
        self.len() == 0
    }
    fn find<Q: ?Sized + Eq>(&self, k: &Q) -> Option<usize>
    where
        K: Borrow<Q>,
    {
        let mut i = 0;
        while i < CAP {
            if let Some((key, _)) = &self.items[i] {
                if key.borrow() == k {
                    return Some(i);
                }
            }
            i += 1;
        }
        None
    }
    fn free_slot(&self) -> Option<usize> {
        let mut i = 0;
        while i < CAP {
            if self.items[i].is_none() {
                return Some(i);
            }
            i += 1;
        }
        None
    }
    pub fn get<Q: ?Sized + Eq + Hash>(&self, k: &Q) -> Option<&V>
    where
        K: Borrow<Q>,
    {
        match self.find(k) {
            Some(i) => self.items[i].as_ref().map(|kv| &kv.1),
            None => None,
        }
    }
    pub fn contains_key<Q: ?Sized + Eq + Hash>(&self, k: &Q) -> bool
    where
        K: Borrow<Q>,
    {
        self.find(k).is_some()
    }
    pub fn insert(&mut self, k: K, v: V) -> Option<V> {
        match self.find(&k) {
            Some(i) => self.items[i].replace((k, v)).map(|kv| kv.1),
            None => {
                if let Some(i) = self.free_slot() {
                    self.items[i] = Some((k, v));
                }
                None
            }
        }
    }
    pub fn remove<Q: ?Sized + Eq + Hash>(&mut self, k: &Q) -> Option<V>
    where
        K: Borrow<Q>,
    {
        match self.find(k) {
            Some(i) => self.items[i].take().map(|kv| kv.1),
            None => None,
        }
    }
    pub fn entry(&mut self, key: K) -> hash_map::Entry<'_, K, V> {
        match self.find(&key) {
            Some(idx) => hash_map::Entry::Occupied(hash_map::OccupiedEntry { map: self, idx }),
            None => hash_map::Entry::Vacant(hash_map::VacantEntry { map: self, key }),
        }
    }
}

pub mod hash_map {
    pub use super::HashMap;
    pub enum Entry<'a, K, V> {
        Occupied(OccupiedEntry<'a, K, V>),
        Vacant(VacantEntry<'a, K, V>),
    }
    pub struct OccupiedEntry<'a, K, V> {
        pub(crate) map: &'a mut HashMap<K, V>,
        pub(crate) idx: usize,
    }
    pub struct VacantEntry<'a, K, V> {
        pub(crate) map: &'a mut HashMap<K, V>,
        pub(crate) key: K,
    }
    impl<'a, K, V> OccupiedEntry<'a, K, V> {
        pub fn get(&self) -> &V {
            match &self.map.items[self.idx] {
                Some(kv) => &kv.1,
                None => unreachable!(),
            }
        }
        pub fn get_mut(&mut self) -> &mut V {
            match &mut self.map.items[self.idx] {
                Some(kv) => &mut kv.1,
                None => unreachable!(),
            }
        }
        pub fn insert(&mut self, v: V) -> V {
            core::mem::replace(self.get_mut(), v)
        }
    }
    impl<'a, K, V> VacantEntry<'a, K, V> {
        /// (returns nothing: chumsky does not use the reference; a full table drops the entry)
        pub fn insert(self, v: V) {
            let mut i = 0;
            while i < super::CAP {
                if self.map.items[i].is_none() {
                    self.map.items[i] = Some((self.key, v));
                    return;
                }
                i += 1;
            }
        }
    }
}

pub struct HashSet<T> {
    items: Vec<T>,
}

impl<T> Default for HashSet<T> {
    fn default() -> Self {
        HashSet { items: Vec::new() }
    }
}

impl<T: Eq + Hash> HashSet<T> {
    pub fn new() -> Self {
        Self::default()
    }
    pub fn with_capacity(n: usize) -> Self {
        HashSet { items: Vec::with_capacity(n) }
    }
    pub fn len(&self) -> usize {
        self.items.len()
    }
    pub fn is_empty(&self) -> bool {
        self.items.is_empty()
    }
    pub fn contains<Q: ?Sized + Eq + Hash>(&self, v: &Q) -> bool
    where
        T: Borrow<Q>,
    {
        let mut i = 0;
        while i < self.items.len() {
            if self.items[i].borrow() == v {
                return true;
            }
            i += 1;
        }
        false
    }
    pub fn insert(&mut self, v: T) -> bool {
        if self.contains(&v) {
            false
        } else {
            self.items.push(v);
            true
        }
    }
    pub fn iter(&self) -> hash_set::Iter<'_, T> {
        hash_set::Iter { inner: self.items.iter() }
    }
}

pub mod hash_set {
    pub use super::HashSet;
    pub struct Iter<'a, T> {
        pub(crate) inner: core::slice::Iter<'a, T>,
    }
    impl<'a, T> Iterator for Iter<'a, T> {
        type Item = &'a T;
        fn next(&mut self) -> Option<&'a T> {
            self.inner.next()
        }
    }
}
