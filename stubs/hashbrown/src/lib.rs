//! Association-list stand-in for `hashbrown` 0.15 with exactly the API subset chumsky calls.
//! Map semantics only (keys unique, last insert wins); no hashing, no probing, no SIMD.
//! Used ONLY to make `feature = "memoization"` encodable by CBMC (the real crate's foldhash
//! 64x64->128 multiply and SSE2 group probing do not finish). See /verif/DESIGN.md section 4.
#![no_std]
extern crate alloc;
use alloc::vec::Vec;
use core::borrow::Borrow;
use core::hash::Hash;

pub struct HashMap<K, V> {
    items: Vec<(K, V)>,
}

impl<K, V> Default for HashMap<K, V> {
    fn default() -> Self {
        HashMap { items: Vec::new() }
    }
}

impl<K: Eq + Hash, V> HashMap<K, V> {
    pub fn new() -> Self {
        Self::default()
    }
    pub fn with_capacity(n: usize) -> Self {
        HashMap { items: Vec::with_capacity(n) }
    }
    pub fn len(&self) -> usize {
        self.items.len()
    }
    pub fn is_empty(&self) -> bool {
        self.items.is_empty()
    }
    fn find<Q: ?Sized + Eq>(&self, k: &Q) -> Option<usize>
    where
        K: Borrow<Q>,
    {
        let mut i = 0;
        while i < self.items.len() {
            if self.items[i].0.borrow() == k {
                return Some(i);
            }
            i += 1;
        }
        None
    }
    pub fn get<Q: ?Sized + Eq + Hash>(&self, k: &Q) -> Option<&V>
    where
        K: Borrow<Q>,
    {
        match self.find(k) {
            Some(i) => Some(&self.items[i].1),
            None => None,
        }
    }
    pub fn contains_key<Q: ?Sized + Eq + Hash>(&self, k: &Q) -> bool
    where
        K: Borrow<Q>,
    {
        self.find(k).is_some()
    }
    pub fn insert(&mut self, k: K, v: V) -> Option<V> {
        match self.find(&k) {
            Some(i) => Some(core::mem::replace(&mut self.items[i].1, v)),
            None => {
                self.items.push((k, v));
                None
            }
        }
    }
    pub fn remove<Q: ?Sized + Eq + Hash>(&mut self, k: &Q) -> Option<V>
    where
        K: Borrow<Q>,
    {
        match self.find(k) {
            Some(i) => Some(self.items.swap_remove(i).1),
            None => None,
        }
    }
    pub fn entry(&mut self, key: K) -> hash_map::Entry<'_, K, V> {
        match self.find(&key) {
            Some(idx) => hash_map::Entry::Occupied(hash_map::OccupiedEntry { map: self, idx }),
            None => hash_map::Entry::Vacant(hash_map::VacantEntry { map: self, key }),
        }
    }
}

pub mod hash_map {
    pub use super::HashMap;
    pub enum Entry<'a, K, V> {
        Occupied(OccupiedEntry<'a, K, V>),
        Vacant(VacantEntry<'a, K, V>),
    }
    pub struct OccupiedEntry<'a, K, V> {
        pub(crate) map: &'a mut HashMap<K, V>,
        pub(crate) idx: usize,
    }
    pub struct VacantEntry<'a, K, V> {
        pub(crate) map: &'a mut HashMap<K, V>,
        pub(crate) key: K,
    }
    impl<'a, K, V> OccupiedEntry<'a, K, V> {
        pub fn get(&self) -> &V {
            &self.map.items[self.idx].1
        }
        pub fn get_mut(&mut self) -> &mut V {
            &mut self.map.items[self.idx].1
        }
        pub fn insert(&mut self, v: V) -> V {
            core::mem::replace(&mut self.map.items[self.idx].1, v)
        }
    }
    impl<'a, K, V> VacantEntry<'a, K, V> {
        pub fn insert(self, v: V) -> &'a mut V {
            self.map.items.push((self.key, v));
            let n = self.map.items.len() - 1;
            &mut self.map.items[n].1
        }
    }
}

pub struct HashSet<T> {
    items: Vec<T>,
}

impl<T> Default for HashSet<T> {
    fn default() -> Self {
        HashSet { items: Vec::new() }
    }
}

impl<T: Eq + Hash> HashSet<T> {
    pub fn new() -> Self {
        Self::default()
    }
    pub fn with_capacity(n: usize) -> Self {
        HashSet { items: Vec::with_capacity(n) }
    }
    pub fn len(&self) -> usize {
        self.items.len()
    }
    pub fn is_empty(&self) -> bool {
        self.items.is_empty()
    }
    pub fn contains<Q: ?Sized + Eq + Hash>(&self, v: &Q) -> bool
    where
        T: Borrow<Q>,
    {
        let mut i = 0;
        while i < self.items.len() {
            if self.items[i].borrow() == v {
                return true;
            }
            i += 1;
        }
        false
    }
    pub fn insert(&mut self, v: T) -> bool {
        if self.contains(&v) {
            false
        } else {
            self.items.push(v);
            true
        }
    }
    pub fn iter(&self) -> hash_set::Iter<'_, T> {
        hash_set::Iter { inner: self.items.iter() }
    }
}

pub mod hash_set {
    pub use super::HashSet;
    pub struct Iter<'a, T> {
        pub(crate) inner: core::slice::Iter<'a, T>,
    }
    impl<'a, T> Iterator for Iter<'a, T> {
        type Item = &'a T;
        fn next(&mut self) -> Option<&'a T> {
            self.inner.next()
        }
    }
}
